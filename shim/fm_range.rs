// ===== shim/fm_range.rs — TRUSTED: cw-storage-plus prefix range queries over LP_WEIGHT_HISTORY (used by unit fm_state only) =====
verus! {
/// cw-storage-plus `Order` / `Bound` (only u64 suffix bounds are used by the code)
pub enum Order { Ascending, Descending }
pub enum Bound { Inclusive(u64), Exclusive(u64) }
impl Bound {
    pub fn inclusive(k: u64) -> (r: Bound) ensures r == Bound::Inclusive(k) { Bound::Inclusive(k) }
    pub fn exclusive(k: u64) -> (r: Bound) ensures r == Bound::Exclusive(k) { Bound::Exclusive(k) }
}
pub open spec fn above_min(e: u64, min: Option<Bound>) -> bool {
    match min { None => true, Some(Bound::Inclusive(k)) => e >= k, Some(Bound::Exclusive(k)) => e > k }
}
pub open spec fn below_max(e: u64, max: Option<Bound>) -> bool {
    match max { None => true, Some(Bound::Inclusive(k)) => e <= k, Some(Bound::Exclusive(k)) => e < k }
}
/// `LP_WEIGHT_HISTORY.prefix((addr, lp))`
pub struct WeightPrefix { pub a: Ghost<Seq<char>>, pub lp: Ghost<Seq<char>> }
impl WeightHistoryMap {
    #[verifier::external_body]
    pub fn prefix(&self, k: (&Addr, &Str)) -> (r: WeightPrefix) ensures r.a@ == k.0@, r.lp@ == k.1@ { unimplemented!() }
}
impl WeightPrefix {
    /// `.range(storage, min, max, order).next().transpose()` (R17 -> `.range_first_(..)`): the first entry of the prefix inside
    /// the bounds in the given key order, None when there is none; stored values always deserialize (as for may_load)
    #[verifier::external_body]
    pub fn range_first_(&self, s: &Storage, min: Option<Bound>, max: Option<Bound>, order: Order) -> (r: Result<Option<(u64, Uint128)>, StdError>)
        ensures match r {
            Ok(Some(x)) => above_min(x.0, min) && below_max(x.0, max) && s.weights@.dom().contains((self.a@, self.lp@, x.0)) && s.weights@[(self.a@, self.lp@, x.0)] == x.1
                && forall|e: u64| #[trigger] s.weights@.dom().contains((self.a@, self.lp@, e)) && above_min(e, min) && below_max(e, max)
                    ==> (order is Ascending ==> x.0 <= e) && (order is Descending ==> e <= x.0),
            Ok(None) => forall|e: u64| above_min(e, min) && below_max(e, max) ==> !#[trigger] s.weights@.dom().contains((self.a@, self.lp@, e)),
            Err(_) => false,
        }
    { unimplemented!() }
}
/// `cw_utils::calc_range_start_string(start_after).map(Bound::ExclusiveRaw)` (R18b): exclusive start key of a listing page
pub struct StartKey { pub k: Ghost<Seq<char>> }
#[verifier::external_body]
pub fn range_start_(start_after: Option<Str>) -> (r: Option<StartKey>)
    ensures r is Some == start_after is Some, start_after is Some ==> r->Some_0.k@ == start_after->Some_0@
{ unimplemented!() }
/// `FARMS.idx.lp_denom.prefix(lp)` (R18c)
pub struct FarmLpPrefix { pub lp: Ghost<Seq<char>> }
#[verifier::external_body]
pub fn farms_lp_prefix_(lp: Str) -> (r: FarmLpPrefix) ensures r.lp@ == lp@ { unimplemented!() }
impl FarmLpPrefix {
    /// `.range(storage, start, None, Order::Ascending).take(n).map(|item| Ok(value)).collect()` (R18): the first n farms of the
    /// LP denom after the start key, in identifier order; stored values always deserialize
    #[verifier::external_body]
    pub fn range_take_(&self, s: &Storage, start: Option<StartKey>, n: usize) -> (r: Result<Vec<Farm>, StdError>)
        ensures match r {
            Ok(v) => v@.len() <= n
                && (forall|i: int| 0 <= i < v@.len() ==> is_farm_of(*s, self.lp@, (#[trigger] v@[i]).identifier@) && s.farms@[v@[i].identifier@] == v@[i])
                && (forall|i: int, j: int| 0 <= i < j < v@.len() ==> (#[trigger] v@[i]).identifier@ != (#[trigger] v@[j]).identifier@)
                && (start is None && v@.len() < n ==>
                    forall|id: Seq<char>| is_farm_of(*s, self.lp@, id) ==> exists|i: int| 0 <= i < v@.len() && (#[trigger] v@[i]).identifier@ == id),
            Err(_) => false,
        }
    { unimplemented!() }
}
} // verus!
