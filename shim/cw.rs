// ===== shim/cw.rs — TRUSTED Verus specification of the cosmwasm-std runtime API =====
// Env / MessageInfo / Deps / DepsMut / Api / cw_utils / cw_ownable / cw2.
// `Storage` is defined per contract (shim/<contract>_storage.rs): a struct of ghost views.

verus! {

// ---------------------------------------------------------------- Coin
pub struct Coin { pub denom: Str, pub amount: Uint128 }
impl Clone for Coin {
    #[verifier::external_body]
    fn clone(&self) -> (r: Coin) ensures r == *self { unimplemented!() }
}
impl PartialEq for Coin {
    #[verifier::external_body]
    fn eq(&self, o: &Coin) -> (r: bool) ensures r == (self.denom@ == o.denom@ && self.amount.v == o.amount.v) { unimplemented!() }
}
impl PartialEqSpecImpl for Coin {
    open spec fn obeys_eq_spec() -> bool { true }
    open spec fn eq_spec(&self, o: &Coin) -> bool { self.denom@ == o.denom@ && self.amount.v == o.amount.v }
}
impl ToStr_ for Coin { #[verifier::external_body] fn to_str_(&self) -> (r: Str) { unimplemented!() } }
/// `cosmwasm_std::coin(amount, denom)`
#[verifier::external_body]
pub fn coin<D: AsStr>(amount: u128, denom: D) -> (r: Coin) ensures r.amount.v == amount, r.denom@ == denom.sv() { unimplemented!() }
/// `cosmwasm_std::coins(amount, denom)`
#[verifier::external_body]
pub fn coins<D: AsStr>(amount: u128, denom: D) -> (r: Vec<Coin>)
    ensures r@.len() == 1, r@[0].amount.v == amount, r@[0].denom@ == denom.sv()
{ unimplemented!() }

// ---------------------------------------------------------------- Env / MessageInfo
pub struct BlockInfo { pub height: u64, pub time: Timestamp, pub chain_id: Str }
pub struct ContractInfo { pub address: Addr }
pub struct Env { pub block: BlockInfo, pub contract: ContractInfo }
pub struct MessageInfo { pub sender: Addr, pub funds: Vec<Coin> }
impl Clone for MessageInfo {
    #[verifier::external_body]
    fn clone(&self) -> (r: MessageInfo) ensures r == *self { unimplemented!() }
}
impl Clone for Env {
    #[verifier::external_body]
    fn clone(&self) -> (r: Env) ensures r == *self { unimplemented!() }
}

// ---------------------------------------------------------------- Api
#[derive(Copy, Clone)]
pub struct Api { pub tag: Ghost<int> }
impl Api {
    /// `Api::addr_validate`: the validity predicate itself is uninterpreted (bech32 rules);
    /// a validated address has exactly the text that was validated.
    #[verifier::external_body]
    pub fn addr_validate(&self, s: &Str) -> (r: Result<Addr, StdError>)
        ensures match r { Ok(a) => a@ == s@ && addr_valid(s@), Err(_) => !addr_valid(s@) }
    { unimplemented!() }
}
pub uninterp spec fn addr_valid(s: Seq<char>) -> bool;

// ---------------------------------------------------------------- Deps / DepsMut
#[derive(Copy, Clone)]
pub struct Deps<'a> { pub storage: &'a Storage, pub api: Api, pub querier: Querier }
pub struct DepsMut<'a> { pub storage: &'a mut Storage, pub api: Api, pub querier: Querier }

impl<'a> DepsMut<'a> {
    #[verifier::external_body]
    pub fn as_ref(&self) -> (r: Deps<'_>)
        ensures *r.storage == *old(self.storage), r.api == self.api, r.querier == self.querier
    { unimplemented!() }

    #[verifier::external_body]
    pub fn branch(&mut self) -> (r: DepsMut<'_>)
        ensures
            *r.storage == *old(self).storage,
            r.api == old(self).api,
            r.querier == old(self).querier,
            final(self).api == old(self).api,
            final(self).querier == old(self).querier,
            *final(self).storage == *final(r.storage),
            *final(final(self).storage) == *final(old(self).storage),
    { unimplemented!() }
}

// ---------------------------------------------------------------- Response / messages
pub enum BankMsg {
    Send { to_address: Str, amount: Vec<Coin> },
    Burn { amount: Vec<Coin> },
}
pub enum ReplyOn { Always, Error, Success, Never }

/// Token-factory messages (mantra-dex-std::tokenfactory, encoded as Stargate/Any in the real code).
pub enum TfMsg {
    CreateDenom { sender: Str, subdenom: Str },
    Mint { sender: Str, amount: Coin, mint_to: Str },
    Burn { sender: Str, amount: Coin, burn_from: Str },
}

pub enum CosmosMsg {
    Bank(BankMsg),
    Wasm(WasmMsg),
    Tf(TfMsg),
}
pub struct SubMsg { pub id: u64, pub msg: CosmosMsg, pub reply_on: ReplyOn }

impl From<BankMsg> for CosmosMsg {
    fn from(b: BankMsg) -> (r: CosmosMsg) ensures r == CosmosMsg::Bank(b) { CosmosMsg::Bank(b) }
}
impl FromSpecImpl<BankMsg> for CosmosMsg {
    open spec fn obeys_from_spec() -> bool { true }
    open spec fn from_spec(b: BankMsg) -> CosmosMsg { CosmosMsg::Bank(b) }
}
impl From<WasmMsg> for CosmosMsg {
    fn from(b: WasmMsg) -> (r: CosmosMsg) ensures r == CosmosMsg::Wasm(b) { CosmosMsg::Wasm(b) }
}
impl FromSpecImpl<WasmMsg> for CosmosMsg {
    open spec fn obeys_from_spec() -> bool { true }
    open spec fn from_spec(b: WasmMsg) -> CosmosMsg { CosmosMsg::Wasm(b) }
}

/// `impl Into<CosmosMsg>` arguments
pub trait IntoCosmos: Sized { spec fn cm(self) -> CosmosMsg; }
impl IntoCosmos for CosmosMsg { open spec fn cm(self) -> CosmosMsg { self } }
impl IntoCosmos for BankMsg { open spec fn cm(self) -> CosmosMsg { CosmosMsg::Bank(self) } }
impl IntoCosmos for WasmMsg { open spec fn cm(self) -> CosmosMsg { CosmosMsg::Wasm(self) } }
impl SubMsg {
    #[verifier::external_body]
    pub fn new<M: IntoCosmos>(msg: M) -> (r: SubMsg) ensures r == (SubMsg { id: 0, msg: msg.cm(), reply_on: ReplyOn::Never }) { unimplemented!() }
    #[verifier::external_body]
    pub fn reply_on_success<M: IntoCosmos>(msg: M, id: u64) -> (r: SubMsg) ensures r == (SubMsg { id, msg: msg.cm(), reply_on: ReplyOn::Success }) { unimplemented!() }
    #[verifier::external_body]
    pub fn reply_on_error<M: IntoCosmos>(msg: M, id: u64) -> (r: SubMsg) ensures r == (SubMsg { id, msg: msg.cm(), reply_on: ReplyOn::Error }) { unimplemented!() }
}

pub open spec fn plain_submsgs(ms: Seq<CosmosMsg>) -> Seq<SubMsg> {
    ms.map_values(|m: CosmosMsg| SubMsg { id: 0, msg: m, reply_on: ReplyOn::Never })
}

/// `Response`: only the ordered list of sub-messages is modelled; attributes, events and
/// `data` are dropped (they do not move funds or state).
pub struct Response { pub messages: Ghost<Seq<SubMsg>> }
impl Response {
    #[verifier::external_body]
    pub fn default() -> (r: Response) ensures r.messages@ == Seq::<SubMsg>::empty() { unimplemented!() }
    #[verifier::external_body]
    pub fn new() -> (r: Response) ensures r.messages@ == Seq::<SubMsg>::empty() { unimplemented!() }
    #[verifier::external_body]
    pub fn add_attributes_(self) -> (r: Response) ensures r.messages@ == self.messages@ { unimplemented!() }
    #[verifier::external_body]
    pub fn set_data<D>(self, d: D) -> (r: Response) ensures r.messages@ == self.messages@ { unimplemented!() }
    #[verifier::external_body]
    pub fn add_message<M: IntoCosmos>(self, m: M) -> (r: Response)
        ensures r.messages@ == self.messages@.push(SubMsg { id: 0, msg: m.cm(), reply_on: ReplyOn::Never })
    { unimplemented!() }
    #[verifier::external_body]
    pub fn add_messages(self, ms: Vec<CosmosMsg>) -> (r: Response)
        ensures r.messages@ == self.messages@ + plain_submsgs(ms@)
    { unimplemented!() }
    #[verifier::external_body]
    pub fn add_submessage(self, m: SubMsg) -> (r: Response) ensures r.messages@ == self.messages@.push(m) { unimplemented!() }
    #[verifier::external_body]
    pub fn add_submessages(self, ms: Vec<SubMsg>) -> (r: Response) ensures r.messages@ == self.messages@ + ms@ { unimplemented!() }
}

/// `Reply` (sub-message reply): id and the Ok/Err outcome (payload text dropped)
pub struct SubMsgResponse { pub tag: Ghost<int> }
pub struct Reply { pub id: u64, pub result: Result<SubMsgResponse, Str> }

/// opaque stand-in for `Binary` / serialized payloads
pub struct Binary { pub tag: Ghost<int> }
/// the serialized form of a value, as an uninterpreted function of the value (serde_json is deterministic: ASSUMED)
pub uninterp spec fn json_of<T>(x: T) -> Binary;
#[verifier::external_body]
pub fn to_json_binary<T>(x: &T) -> (r: Result<Binary, StdError>) ensures r is Ok ==> r->Ok_0 == json_of(*x) { unimplemented!() }

pub struct Attribute { pub tag: Ghost<int> }
#[verifier::external_body]
pub fn attr<K, V>(k: K, v: V) -> (r: Attribute) { unimplemented!() }

} // verus!

// ---------------------------------------------------------------- cw_utils
pub mod cw_utils {
    use super::*;
    verus! {
    /// `cw_utils::nonpayable`: Ok iff no funds attached.
    #[verifier::external_body]
    pub fn nonpayable(info: &MessageInfo) -> (r: Result<(), PaymentError>)
        ensures r is Ok <==> info.funds@.len() == 0
    { unimplemented!() }

    /// `cw_utils::one_coin`: exactly one coin with a non-zero amount.
    #[verifier::external_body]
    pub fn one_coin(info: &MessageInfo) -> (r: Result<Coin, PaymentError>)
        ensures match r {
            Ok(c) => info.funds@.len() == 1 && c == info.funds@[0] && c.amount.v != 0,
            Err(_) => !(info.funds@.len() == 1 && info.funds@[0].amount.v != 0),
        }
    { unimplemented!() }

    /// `cw_utils::must_pay`: exactly one coin, non-zero, of the given denom; returns its amount.
    #[verifier::external_body]
    pub fn must_pay(info: &MessageInfo, denom: &Str) -> (r: Result<Uint128, PaymentError>)
        ensures match r {
            Ok(a) => info.funds@.len() == 1 && info.funds@[0].amount.v != 0 && info.funds@[0].denom@ == denom@ && a == info.funds@[0].amount,
            Err(_) => !(info.funds@.len() == 1 && info.funds@[0].amount.v != 0 && info.funds@[0].denom@ == denom@),
        }
    { unimplemented!() }
    }
}

// ---------------------------------------------------------------- cw_ownable (2.0) / mantra_utils::ownership
pub mod cw_ownable {
    use super::*;
    verus! {
    pub enum Expiration { AtHeight(u64), AtTime(Timestamp), Never }
    pub enum Action {
        TransferOwnership { new_owner: Str, expiry: Option<Expiration> },
        AcceptOwnership,
        RenounceOwnership,
    }
    pub open spec fn expired(e: Option<Expiration>, block: BlockInfo) -> bool {
        match e {
            Some(Expiration::AtHeight(h)) => block.height >= h,
            Some(Expiration::AtTime(t)) => block.time.nanos >= t.nanos,
            _ => false,
        }
    }

    #[verifier::external_body]
    pub fn initialize_owner(s: &mut Storage, api: Api, owner: Option<&Str>) -> (r: Result<(), StdError>)
        ensures
            match r {
                Ok(_) => *final(s) == (Storage {
                    owner: Ghost(match owner { Some(o) => Some(o@), None => None }),
                    pending_owner: Ghost(None),
                    pending_expiry: Ghost(None),
                    ..*old(s) }),
                Err(_) => true,
            }
    { unimplemented!() }

    #[verifier::external_body]
    pub fn assert_owner(s: &Storage, sender: &Addr) -> (r: Result<(), OwnershipError>)
        ensures r is Ok <==> s.owner@ == Some(sender@)
    { unimplemented!() }

    #[verifier::external_body]
    pub fn is_owner(s: &Storage, addr: &Addr) -> (r: Result<bool, StdError>)
        ensures match r { Ok(b) => b == (s.owner@ == Some(addr@)), Err(_) => true }
    { unimplemented!() }

    /// `cw_ownable::get_ownership`: a read of the ownership item (its content is not modelled beyond being a read)
    pub struct Ownership { pub tag: Ghost<int> }
    #[verifier::external_body]
    pub fn get_ownership(s: &Storage) -> (r: Result<Ownership, StdError>) { unimplemented!() }

    /// The ownership state machine of cw-ownable 2.0 (`update_ownership`), by its source:
    /// transfer: only the owner; sets pending; accept: only the pending owner, not expired;
    /// renounce: only the owner; clears everything.
    pub open spec fn update_ownership_spec(pre: Storage, block: BlockInfo, sender: Seq<char>, action: Action, post: Storage) -> bool {
        match action {
            Action::TransferOwnership { new_owner, expiry } =>
                pre.owner@ == Some(sender) && post == (Storage { pending_owner: Ghost(Some(new_owner@)), pending_expiry: Ghost(expiry), ..pre }),
            Action::AcceptOwnership =>
                pre.pending_owner@ == Some(sender) && !expired(pre.pending_expiry@, block)
                && post == (Storage { owner: Ghost(Some(sender)), pending_owner: Ghost(None), pending_expiry: Ghost(None), ..pre }),
            Action::RenounceOwnership =>
                pre.owner@ == Some(sender) && post == (Storage { owner: Ghost(None), pending_owner: Ghost(None), pending_expiry: Ghost(None), ..pre }),
        }
    }
    }
}

pub mod mantra_utils {
    pub mod ownership {
        use super::super::*;
        verus! {
        /// `mantra_utils::ownership::update_ownership` = `cw_ownable::update_ownership` + attributes.
        #[verifier::external_body]
        pub fn update_ownership(deps: DepsMut, env: Env, info: MessageInfo, action: cw_ownable::Action) -> (r: Result<Response, OwnershipError>)
            ensures
                match r {
                    Ok(resp) => resp.messages@.len() == 0
                        && cw_ownable::update_ownership_spec(*old(deps.storage), env.block, info.sender@, action, *final(deps.storage)),
                    Err(_) => true,
                }
        { unimplemented!() }
        }
    }
}

verus! {
/// `cw2::set_contract_version`: the version key is outside the modelled state.
#[verifier::external_body]
pub fn set_contract_version(s: &mut Storage, name: &str, version: &str) -> (r: Result<(), StdError>)
    ensures *final(s) == *old(s)
{ unimplemented!() }
} // verus!
