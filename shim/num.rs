// ===== shim/num.rs — TRUSTED Verus specification of cosmwasm-std 2.1 numerics =====
// Uint64 / Uint128 / Uint256 / Uint512 / Decimal / Decimal256.
// The view `x@` is the mathematical value (nat). 256-bit values are two u128 limbs and 512-bit
// values two 256-bit limbs, so every value is bounded by construction.
// Panicking operations (`+ - * / %`, multiply_ratio, from_ratio, pow, ...) are specified for the runs that RETURN:
// a panic aborts the transaction, so `ensures no_panic_condition && result == formula` is their partial-correctness
// contract (vacuity of the surrounding function is guarded by the `ensures false` twins).
// All `external_body` functions below are assumed contracts on the dependency, written from
// the cosmwasm-std 2.1 sources (math/uint128.rs, uint256.rs, decimal.rs, decimal256.rs).
// Kani proves the linear Uint64/Uint128 entries against the real crate (kani/src/shim_conformance.rs);
// the 256/512-bit and Decimal entries are not checkable here (CBMC diverges on bnum) and stay assumed.

use core::cmp::Ordering;
#[allow(unused_imports)]
use core::ops::{Mul, Sub, Add, Div};
use vstd::std_specs::cmp::{PartialOrdSpecImpl, OrdSpecImpl};
use vstd::std_specs::ops::{AddSpecImpl, SubSpecImpl, MulSpecImpl, DivSpecImpl, RemSpecImpl};

verus! {

pub open spec fn nat_cmp(a: nat, b: nat) -> Ordering {
    if a < b { Ordering::Less } else if a == b { Ordering::Equal } else { Ordering::Greater }
}
pub open spec fn p128() -> nat { U128_MAX + 1 }

/// anything convertible to an unsigned integer value (`impl Into<u128>` / `impl Into<Uint256>` arguments)
pub trait ToNat: Sized { spec fn to_nat(self) -> nat; }
impl ToNat for u8 { open spec fn to_nat(self) -> nat { self as nat } }
impl ToNat for u16 { open spec fn to_nat(self) -> nat { self as nat } }
impl ToNat for u32 { open spec fn to_nat(self) -> nat { self as nat } }
impl ToNat for u64 { open spec fn to_nat(self) -> nat { self as nat } }
impl ToNat for u128 { open spec fn to_nat(self) -> nat { self as nat } }
impl ToNat for usize { open spec fn to_nat(self) -> nat { self as nat } }
impl ToNat for Uint64 { open spec fn to_nat(self) -> nat { self@ } }
impl ToNat for Uint128 { open spec fn to_nat(self) -> nat { self@ } }
impl ToNat for Uint256 { open spec fn to_nat(self) -> nat { self@ } }

/// cosmwasm-std `Fraction`: a (numerator, denominator) pair of integers, or a Decimal (atomics / 10^18)
pub trait Frac: Sized { spec fn num(self) -> nat; spec fn den(self) -> nat; }
impl<A: ToNat, B: ToNat> Frac for (A, B) {
    open spec fn num(self) -> nat { self.0.to_nat() }
    open spec fn den(self) -> nat { self.1.to_nat() }
}
impl Frac for Decimal { open spec fn num(self) -> nat { self@ } open spec fn den(self) -> nat { DEC } }
impl Frac for Decimal256 { open spec fn num(self) -> nat { self@ } open spec fn den(self) -> nat { DEC } }

#[derive(Copy)]
pub struct Uint64 { pub v: u64 }
#[derive(Copy)]
pub struct Uint128 { pub v: u128 }
#[derive(Copy)]
pub struct Uint256 { pub hi: u128, pub lo: u128 }
#[derive(Copy)]
pub struct Uint512 { pub hi: Uint256, pub lo: Uint256 }
/// `Decimal(Uint128)`: 18 fractional digits; `a` is the atomics value
#[derive(Copy)]
pub struct Decimal { pub a: u128 }
/// `Decimal256(Uint256)`: 18 fractional digits
#[derive(Copy)]
pub struct Decimal256 { pub a: Uint256 }

impl View for Uint64 { type V = nat; open spec fn view(&self) -> nat { self.v as nat } }
impl View for Uint128 { type V = nat; open spec fn view(&self) -> nat { self.v as nat } }
impl View for Uint256 { type V = nat; open spec fn view(&self) -> nat { (self.hi as nat) * p128() + (self.lo as nat) } }
impl View for Uint512 { type V = nat; open spec fn view(&self) -> nat { self.hi@ * pow2_256() + self.lo@ } }
/// view of a decimal = its atomics (value * 10^18)
impl View for Decimal { type V = nat; open spec fn view(&self) -> nat { self.a as nat } }
impl View for Decimal256 { type V = nat; open spec fn view(&self) -> nat { self.a@ } }

pub proof fn lemma_u256_bounds(x: Uint256)
    ensures x@ <= u256_max(),
{
    assert(p128() == U128_MAX + 1);
    assert(pow2_256() == p128() * p128());
    assert((x.hi as nat) * p128() <= U128_MAX * p128()) by (nonlinear_arith) requires x.hi as nat <= U128_MAX;
    assert(U128_MAX * p128() + U128_MAX == p128() * p128() - 1) by (nonlinear_arith) requires p128() == U128_MAX + 1;
}
pub proof fn lemma_u256_eq(x: Uint256, y: Uint256)
    ensures x@ == y@ <==> x == y,
{
    if x@ == y@ {
        assert(x.hi == y.hi && x.lo == y.lo) by (nonlinear_arith)
            requires (x.hi as nat) * p128() + (x.lo as nat) == (y.hi as nat) * p128() + (y.lo as nat),
                (x.lo as nat) < p128(), (y.lo as nat) < p128(), p128() > 0;
    }
}

} // verus!

macro_rules! cmp_impls { ($($t:ty),*) => { $( verus! {
impl Clone for $t { #[verifier::external_body] fn clone(&self) -> (r: $t) ensures r == *self { unimplemented!() } }
impl PartialEq for $t {
    #[verifier::external_body]
    fn eq(&self, o: &$t) -> (r: bool) ensures r == (self@ == o@) { unimplemented!() }
}
impl Eq for $t {}
impl PartialEqSpecImpl for $t {
    open spec fn obeys_eq_spec() -> bool { true }
    open spec fn eq_spec(&self, o: &$t) -> bool { self@ == o@ }
}
impl PartialOrd for $t {
    #[verifier::external_body]
    fn partial_cmp(&self, o: &$t) -> (r: Option<Ordering>) ensures r == Some(nat_cmp(self@, o@)) { unimplemented!() }
}
impl PartialOrdSpecImpl for $t {
    open spec fn obeys_partial_cmp_spec() -> bool { true }
    open spec fn partial_cmp_spec(&self, o: &$t) -> Option<Ordering> { Some(nat_cmp(self@, o@)) }
}
impl Ord for $t {
    #[verifier::external_body]
    fn cmp(&self, o: &$t) -> (r: Ordering) ensures r == nat_cmp(self@, o@) { unimplemented!() }
}
impl OrdSpecImpl for $t {
    open spec fn obeys_cmp_spec() -> bool { true }
    open spec fn cmp_spec(&self, o: &$t) -> Ordering { nat_cmp(self@, o@) }
}
impl $t {
    /// comparison operators used in spec expressions (`a > b` in a contract or closure annotation)
    pub open spec fn spec_gt(self, o: $t) -> bool { self@ > o@ }
    pub open spec fn spec_lt(self, o: $t) -> bool { self@ < o@ }
    pub open spec fn spec_ge(self, o: $t) -> bool { self@ >= o@ }
    pub open spec fn spec_le(self, o: $t) -> bool { self@ <= o@ }
    /// `Ord::max` / `Ord::min`
    #[verifier::external_body]
    pub fn max(self, o: $t) -> (r: $t) ensures r@ == (if self@ >= o@ { self@ } else { o@ }), r == self || r == o { unimplemented!() }
    #[verifier::external_body]
    pub fn min(self, o: $t) -> (r: $t) ensures r@ == (if self@ <= o@ { self@ } else { o@ }), r == self || r == o { unimplemented!() }
}
} )* } }
cmp_impls!(Uint64, Uint128, Uint256, Uint512, Decimal, Decimal256, Timestamp);

// checked integer ops shared by the four Uint types; $max is the spec-level maximum
macro_rules! uint_ops { ($t:ty, $max:expr, $zero:expr, $one:expr) => { verus! {
impl $t {
    #[verifier::external_body]
    #[verifier::when_used_as_spec(spec_zero)]
    pub fn zero() -> (r: $t) ensures r@ == 0, r == Self::spec_zero() { unimplemented!() }
    pub open spec fn spec_zero() -> $t { $zero }
    #[verifier::external_body]
    #[verifier::when_used_as_spec(spec_one)]
    pub fn one() -> (r: $t) ensures r@ == 1, r == Self::spec_one() { unimplemented!() }
    pub open spec fn spec_one() -> $t { $one }
    #[verifier::external_body]
    #[verifier::when_used_as_spec(spec_is_zero)]
    pub fn is_zero(&self) -> (r: bool) ensures r == (self@ == 0) { unimplemented!() }
    pub open spec fn spec_is_zero(&self) -> bool { self@ == 0 }
    #[verifier::external_body]
    pub fn checked_add(self, o: $t) -> (r: Result<$t, OverflowError>)
        ensures match r { Ok(x) => x@ == self@ + o@, Err(_) => self@ + o@ > $max }
    { unimplemented!() }
    #[verifier::external_body]
    pub fn checked_sub(self, o: $t) -> (r: Result<$t, OverflowError>)
        ensures match r { Ok(x) => self@ >= o@ && x@ == self@ - o@, Err(_) => self@ < o@ }
    { unimplemented!() }
    #[verifier::external_body]
    pub fn checked_mul(self, o: $t) -> (r: Result<$t, OverflowError>)
        ensures match r { Ok(x) => x@ == self@ * o@, Err(_) => self@ * o@ > $max }
    { unimplemented!() }
    #[verifier::external_body]
    pub fn checked_div(self, o: $t) -> (r: Result<$t, DivideByZeroError>)
        ensures match r { Ok(x) => o@ != 0 && x@ == self@ / o@, Err(_) => o@ == 0 }
    { unimplemented!() }
    #[verifier::external_body]
    pub fn checked_rem(self, o: $t) -> (r: Result<$t, DivideByZeroError>)
        ensures match r { Ok(x) => o@ != 0 && x@ == self@ % o@, Err(_) => o@ == 0 }
    { unimplemented!() }
    #[verifier::external_body]
    pub fn saturating_sub(self, o: $t) -> (r: $t)
        ensures r@ == (if self@ >= o@ { (self@ - o@) as nat } else { 0 })
    { unimplemented!() }
    #[verifier::external_body]
    pub fn saturating_add(self, o: $t) -> (r: $t)
        ensures r@ == (if self@ + o@ <= $max { self@ + o@ } else { $max })
    { unimplemented!() }
    #[verifier::external_body]
    pub fn saturating_mul(self, o: $t) -> (r: $t)
        ensures r@ == (if self@ * o@ <= $max { self@ * o@ } else { $max })
    { unimplemented!() }
    #[verifier::external_body]
    pub fn abs_diff(self, o: $t) -> (r: $t)
        ensures r@ == (if self@ >= o@ { (self@ - o@) as nat } else { (o@ - self@) as nat })
    { unimplemented!() }
    /// floor(self * num / den); panics (aborts) if den == 0 or the result overflows
    #[verifier::external_body]
    pub fn multiply_ratio<A: ToNat, B: ToNat>(&self, num: A, den: B) -> (r: $t)
        ensures den.to_nat() != 0, (self@ * num.to_nat()) / den.to_nat() <= $max, r@ == (self@ * num.to_nat()) / den.to_nat()
    { unimplemented!() }
    #[verifier::external_body]
    pub fn checked_multiply_ratio<A: ToNat, B: ToNat>(&self, num: A, den: B) -> (r: Result<$t, CheckedMultiplyRatioError>)
        ensures match r {
            Ok(x) => den.to_nat() != 0 && x@ == (self@ * num.to_nat()) / den.to_nat(),
            Err(_) => den.to_nat() == 0 || (self@ * num.to_nat()) / den.to_nat() > $max,
        }
    { unimplemented!() }
    /// `checked_mul_floor((n, d))` = floor(self * n / d)
    #[verifier::external_body]
    pub fn checked_mul_floor<F: Frac>(self, frac: F) -> (r: Result<$t, CheckedMultiplyFractionError>)
        ensures match r {
            Ok(x) => frac.den() != 0 && x@ == (self@ * frac.num()) / frac.den(),
            Err(_) => frac.den() == 0 || (self@ * frac.num()) / frac.den() > $max,
        }
    { unimplemented!() }
    /// `mul_floor((n, d))` = floor(self * n / d); panics on overflow or a zero denominator (specified for the runs that return)
    #[verifier::external_body]
    pub fn mul_floor<F: Frac>(self, frac: F) -> (r: $t)
        ensures frac.den() != 0, r@ == (self@ * frac.num()) / frac.den(),
    { unimplemented!() }
    /// `checked_div_floor((n, d))` = floor(self * d / n)  (division by the fraction n/d)
    #[verifier::external_body]
    pub fn checked_div_floor<F: Frac>(self, frac: F) -> (r: Result<$t, CheckedMultiplyFractionError>)
        ensures match r {
            Ok(x) => frac.num() != 0 && x@ == (self@ * frac.den()) / frac.num(),
            Err(_) => frac.num() == 0 || (self@ * frac.den()) / frac.num() > $max,
        }
    { unimplemented!() }
    /// `checked_mul_ceil((n, d))` = ceil(self * n / d)
    #[verifier::external_body]
    pub fn checked_mul_ceil<F: Frac>(self, frac: F) -> (r: Result<$t, CheckedMultiplyFractionError>)
        ensures match r {
            Ok(x) => frac.den() != 0 && x@ == ((self@ * frac.num() + frac.den() - 1) as nat) / frac.den(),
            Err(_) => frac.den() == 0 || ((self@ * frac.num() + frac.den() - 1) as nat) / frac.den() > $max,
        }
    { unimplemented!() }
    /// `checked_div_ceil((n, d))` = ceil(self * d / n)
    #[verifier::external_body]
    pub fn checked_div_ceil<F: Frac>(self, frac: F) -> (r: Result<$t, CheckedMultiplyFractionError>)
        ensures match r {
            Ok(x) => frac.num() != 0 && x@ == ((self@ * frac.den() + frac.num() - 1) as nat) / frac.num(),
            Err(_) => frac.num() == 0 || ((self@ * frac.den() + frac.num() - 1) as nat) / frac.num() > $max,
        }
    { unimplemented!() }
    /// integer square root: r*r <= self < (r+1)*(r+1)
    #[verifier::external_body]
    pub fn isqrt(self) -> (r: $t) ensures r@ * r@ <= self@, self@ < (r@ + 1) * (r@ + 1) { unimplemented!() }
    #[verifier::external_body]
    pub fn pow(self, e: u32) -> (r: $t) ensures nat_pow(self@, e as nat) <= $max, r@ == nat_pow(self@, e as nat) { unimplemented!() }
    #[verifier::external_body]
    pub fn checked_pow(self, e: u32) -> (r: Result<$t, OverflowError>)
        ensures match r { Ok(x) => x@ == nat_pow(self@, e as nat), Err(_) => nat_pow(self@, e as nat) > $max }
    { unimplemented!() }
}
impl core::ops::Add for $t {
    type Output = $t;
    #[verifier::external_body]
    fn add(self, o: $t) -> (r: $t) ensures self@ + o@ <= $max, r@ == self@ + o@ { unimplemented!() }
}
impl AddSpecImpl<$t> for $t {
    open spec fn obeys_add_spec() -> bool { false }
    open spec fn add_req(self, o: $t) -> bool { true }
    uninterp spec fn add_spec(self, o: $t) -> $t;
}
impl core::ops::Sub for $t {
    type Output = $t;
    #[verifier::external_body]
    fn sub(self, o: $t) -> (r: $t) ensures self@ >= o@, r@ == self@ - o@ { unimplemented!() }
}
impl SubSpecImpl<$t> for $t {
    open spec fn obeys_sub_spec() -> bool { false }
    open spec fn sub_req(self, o: $t) -> bool { true }
    uninterp spec fn sub_spec(self, o: $t) -> $t;
}
impl core::ops::Mul for $t {
    type Output = $t;
    #[verifier::external_body]
    fn mul(self, o: $t) -> (r: $t) ensures self@ * o@ <= $max, r@ == self@ * o@ { unimplemented!() }
}
impl MulSpecImpl<$t> for $t {
    open spec fn obeys_mul_spec() -> bool { false }
    open spec fn mul_req(self, o: $t) -> bool { true }
    uninterp spec fn mul_spec(self, o: $t) -> $t;
}
impl core::ops::Div for $t {
    type Output = $t;
    #[verifier::external_body]
    fn div(self, o: $t) -> (r: $t) ensures o@ != 0, r@ == self@ / o@ { unimplemented!() }
}
impl DivSpecImpl<$t> for $t {
    open spec fn obeys_div_spec() -> bool { false }
    open spec fn div_req(self, o: $t) -> bool { true }
    uninterp spec fn div_spec(self, o: $t) -> $t;
}
impl core::ops::Rem for $t {
    type Output = $t;
    #[verifier::external_body]
    fn rem(self, o: $t) -> (r: $t) ensures o@ != 0, r@ == self@ % o@ { unimplemented!() }
}
impl RemSpecImpl<$t> for $t {
    open spec fn obeys_rem_spec() -> bool { false }
    open spec fn rem_req(self, o: $t) -> bool { true }
    uninterp spec fn rem_spec(self, o: $t) -> $t;
}
} } }
uint_ops!(Uint64, U64_MAX, Uint64 { v: 0 }, Uint64 { v: 1 });
uint_ops!(Uint128, U128_MAX, Uint128 { v: 0 }, Uint128 { v: 1 });
uint_ops!(Uint256, u256_max(), Uint256 { hi: 0, lo: 0 }, Uint256 { hi: 0, lo: 1 });
uint_ops!(Uint512, u512_max(), Uint512 { hi: Uint256 { hi: 0, lo: 0 }, lo: Uint256 { hi: 0, lo: 0 } }, Uint512 { hi: Uint256 { hi: 0, lo: 0 }, lo: Uint256 { hi: 0, lo: 1 } });

verus! {

pub open spec fn nat_pow(b: nat, e: nat) -> nat decreases e { if e == 0 { 1 } else { b * nat_pow(b, (e - 1) as nat) } }
/// `u128::pow` (overflow panics under overflow-checks = true)
pub assume_specification [ u128::pow ] (base: u128, exp: u32) -> (r: u128)
    ensures nat_pow(base as nat, exp as nat) <= U128_MAX, r as nat == nat_pow(base as nat, exp as nat);

// ---------------------------------------------------------------- constructors / conversions
impl Uint64 {
    /// `wrapping_add`: modulo 2^64
    #[verifier::external_body]
    pub fn wrapping_add(self, o: Uint64) -> (r: Uint64) ensures r@ == (self@ + o@) % 0x1_0000_0000_0000_0000 { unimplemented!() }
    /// `full_mul`: the exact 128-bit product
    #[verifier::external_body]
    pub fn full_mul(self, o: Uint64) -> (r: Uint128) ensures r@ == self@ * o@ { unimplemented!() }
    pub fn new(v: u64) -> (r: Uint64) ensures r.v == v { Uint64 { v } }
    pub fn u64(&self) -> (r: u64) ensures r == self.v { self.v }
}
impl Uint128 {
    #[verifier::when_used_as_spec(spec_new)]
    pub const fn new(v: u128) -> (r: Uint128) ensures r.v == v, r == Self::spec_new(v) { Uint128 { v } }
    pub open spec fn spec_new(v: u128) -> Uint128 { Uint128 { v } }
    pub fn u128(&self) -> (r: u128) ensures r == self.v { self.v }
}
impl Uint256 {
    #[verifier::external_body]
    pub fn from_uint128(x: Uint128) -> (r: Uint256) ensures r@ == x@ { unimplemented!() }
    #[verifier::external_body]
    pub fn from_u128(x: u128) -> (r: Uint256) ensures r@ == x as nat { unimplemented!() }
}
} // verus!

macro_rules! from_impl { ($src:ty, $dst:ty, $x:ident => $e:expr) => { verus! {
impl From<$src> for $dst {
    #[verifier::external_body]
    fn from($x: $src) -> (r: $dst) ensures r == $e { unimplemented!() }
}
impl FromSpecImpl<$src> for $dst {
    open spec fn obeys_from_spec() -> bool { true }
    open spec fn from_spec($x: $src) -> $dst { $e }
}
} } }
from_impl!(u64, Uint64, x => Uint64 { v: x });
from_impl!(u8, Uint128, x => Uint128 { v: x as u128 });
from_impl!(u16, Uint128, x => Uint128 { v: x as u128 });
from_impl!(u32, Uint128, x => Uint128 { v: x as u128 });
from_impl!(u64, Uint128, x => Uint128 { v: x as u128 });
from_impl!(u128, Uint128, x => Uint128 { v: x });
from_impl!(Uint64, Uint128, x => Uint128 { v: x.v as u128 });
from_impl!(u8, Uint256, x => Uint256 { hi: 0, lo: x as u128 });
from_impl!(u32, Uint256, x => Uint256 { hi: 0, lo: x as u128 });
from_impl!(u64, Uint256, x => Uint256 { hi: 0, lo: x as u128 });
from_impl!(u128, Uint256, x => Uint256 { hi: 0, lo: x });
from_impl!(Uint64, Uint256, x => Uint256 { hi: 0, lo: x.v as u128 });
from_impl!(Uint128, Uint256, x => Uint256 { hi: 0, lo: x.v });
from_impl!(Uint256, Uint512, x => Uint512 { hi: Uint256 { hi: 0, lo: 0 }, lo: x });
from_impl!(Uint128, Uint512, x => Uint512 { hi: Uint256 { hi: 0, lo: 0 }, lo: Uint256 { hi: 0, lo: x.v } });
from_impl!(u128, Uint512, x => Uint512 { hi: Uint256 { hi: 0, lo: 0 }, lo: Uint256 { hi: 0, lo: x } });
from_impl!(Decimal, Decimal256, x => Decimal256 { a: Uint256 { hi: 0, lo: x.a } });

verus! {
} // verus!
/// narrowing conversions (`TryFrom` / `.try_into()`): Ok iff the value fits
macro_rules! try_from_impl { ($src:ty, $dst:ty, $max:expr) => { verus! {
impl TryFrom<$src> for $dst {
    type Error = ConversionOverflowError;
    #[verifier::external_body]
    fn try_from(x: $src) -> (r: Result<$dst, ConversionOverflowError>)
        ensures match r { Ok(y) => y@ == x@, Err(_) => x@ > $max }
    { unimplemented!() }
}
impl vstd::std_specs::convert::TryFromSpecImpl<$src> for $dst {
    open spec fn obeys_try_from_spec() -> bool { false }
    uninterp spec fn try_from_spec(x: $src) -> Result<$dst, ConversionOverflowError>;
}
} } }
try_from_impl!(Uint256, Uint128, U128_MAX);
try_from_impl!(Uint128, Uint64, U64_MAX);
try_from_impl!(Uint512, Uint128, U128_MAX);
try_from_impl!(Uint512, Uint256, u256_max());
verus! {

// ---------------------------------------------------------------- Decimal (128-bit atomics)
impl Decimal {
    pub const DECIMAL_PLACES: u32 = 18;
    #[verifier::external_body]
    pub fn zero() -> (r: Decimal) ensures r@ == 0 { unimplemented!() }
    #[verifier::external_body]
    pub fn one() -> (r: Decimal) ensures r@ == DEC { unimplemented!() }
    /// `Decimal::new(atomics)`
    #[verifier::external_body]
    pub fn new(x: Uint128) -> (r: Decimal) ensures r@ == x@ { unimplemented!() }
    #[verifier::external_body]
    pub fn raw(x: u128) -> (r: Decimal) ensures r@ == x as nat { unimplemented!() }
    /// `Decimal::percent(n)` = n / 100
    pub const fn percent(n: u64) -> (r: Decimal) ensures r@ == (n as nat) * 10_000_000_000_000_000 { Decimal { a: (n as u128) * 10_000_000_000_000_000u128 } }
    #[verifier::external_body]
    pub fn atomics(&self) -> (r: Uint128) ensures r@ == self@ { unimplemented!() }
    #[verifier::external_body]
    pub fn is_zero(&self) -> (r: bool) ensures r == (self@ == 0) { unimplemented!() }
    /// floor(n * 10^18 / d); panics if d == 0 or on overflow
    #[verifier::external_body]
    pub fn from_ratio<A: ToNat, B: ToNat>(n: A, d: B) -> (r: Decimal)
        ensures d.to_nat() != 0, (n.to_nat() * DEC) / d.to_nat() <= U128_MAX, r@ == (n.to_nat() * DEC) / d.to_nat()
    { unimplemented!() }
    /// floor(a * b / 10^18)
    #[verifier::external_body]
    pub fn checked_mul(self, o: Decimal) -> (r: Result<Decimal, OverflowError>)
        ensures match r { Ok(x) => x@ == (self@ * o@) / DEC, Err(_) => (self@ * o@) / DEC > U128_MAX }
    { unimplemented!() }
    /// floor(a * 10^18 / b)
    #[verifier::external_body]
    pub fn checked_div(self, o: Decimal) -> (r: Result<Decimal, CheckedFromRatioError>)
        ensures match r { Ok(x) => o@ != 0 && x@ == (self@ * DEC) / o@, Err(_) => o@ == 0 || (self@ * DEC) / o@ > U128_MAX }
    { unimplemented!() }
    #[verifier::external_body]
    pub fn checked_add(self, o: Decimal) -> (r: Result<Decimal, OverflowError>)
        ensures match r { Ok(x) => x@ == self@ + o@, Err(_) => self@ + o@ > U128_MAX }
    { unimplemented!() }
    #[verifier::external_body]
    pub fn checked_sub(self, o: Decimal) -> (r: Result<Decimal, OverflowError>)
        ensures match r { Ok(x) => self@ >= o@ && x@ == self@ - o@, Err(_) => self@ < o@ }
    { unimplemented!() }
    #[verifier::external_body]
    pub fn to_uint_floor(self) -> (r: Uint128) ensures r@ == self@ / DEC { unimplemented!() }
    #[verifier::external_body]
    pub fn to_uint_ceil(self) -> (r: Uint128) ensures r@ == (self@ + DEC - 1) as nat / DEC { unimplemented!() }
    /// `Decimal::from_str`: the parser is uninterpreted except for the literals pinned by `axiom_dec_parse_*`
    #[verifier::external_body]
    pub fn from_str(s: &str) -> (r: Result<Decimal, StdError>)
        ensures match r { Ok(d) => dec_parse(s@) == Some(d@), Err(_) => dec_parse(s@) is None }
    { unimplemented!() }
}
pub uninterp spec fn dec_parse(s: Seq<char>) -> Option<nat>;
/// the two decimal literals the code parses (perform_swap.rs): "0.01" = 10^16 atomics, "0.5" = 5*10^17 atomics
pub broadcast axiom fn axiom_dec_parse_0_01() ensures #[trigger] dec_parse("0.01"@) == Some(10_000_000_000_000_000nat);
pub broadcast axiom fn axiom_dec_parse_0_5() ensures #[trigger] dec_parse("0.5"@) == Some(500_000_000_000_000_000nat);
pub broadcast group group_dec_parse { axiom_dec_parse_0_01, axiom_dec_parse_0_5 }

impl Decimal256 {
    #[verifier::external_body]
    pub fn zero() -> (r: Decimal256) ensures r@ == 0 { unimplemented!() }
    #[verifier::external_body]
    pub fn one() -> (r: Decimal256) ensures r@ == DEC { unimplemented!() }
    #[verifier::external_body]
    pub fn new(x: Uint256) -> (r: Decimal256) ensures r@ == x@ { unimplemented!() }
    #[verifier::external_body]
    pub fn raw(x: u128) -> (r: Decimal256) ensures r@ == x as nat { unimplemented!() }
    #[verifier::external_body]
    pub fn atomics(&self) -> (r: Uint256) ensures r@ == self@ { unimplemented!() }
    pub fn decimal_places(&self) -> (r: u32) ensures r == 18 { 18 }
    #[verifier::external_body]
    pub fn is_zero(&self) -> (r: bool) ensures r == (self@ == 0) { unimplemented!() }
    /// floor(n * 10^18 / d); panics if d == 0 or on overflow
    #[verifier::external_body]
    pub fn from_ratio<A: ToNat, B: ToNat>(n: A, d: B) -> (r: Decimal256)
        ensures d.to_nat() != 0, (n.to_nat() * DEC) / d.to_nat() <= u256_max(), r@ == (n.to_nat() * DEC) / d.to_nat()
    { unimplemented!() }
    #[verifier::external_body]
    pub fn checked_from_ratio<A: ToNat, B: ToNat>(n: A, d: B) -> (r: Result<Decimal256, CheckedFromRatioError>)
        ensures match r {
            Ok(x) => d.to_nat() != 0 && x@ == (n.to_nat() * DEC) / d.to_nat(),
            Err(_) => d.to_nat() == 0 || (n.to_nat() * DEC) / d.to_nat() > u256_max(),
        }
    { unimplemented!() }
    /// `from_atomics(value, places)`: value * 10^(18-places) (places <= 18), value / 10^(places-18) otherwise
    #[verifier::external_body]
    pub fn from_atomics<A: ToNat>(v: A, places: u32) -> (r: Result<Decimal256, Decimal256RangeExceeded>)
        ensures match r {
            Ok(x) => x@ == dec_from_atomics(v.to_nat(), places as nat),
            Err(_) => places < 18 && v.to_nat() * nat_pow(10, (18 - places) as nat) > u256_max(),
        }
    { unimplemented!() }
    #[verifier::external_body]
    pub fn checked_mul(self, o: Decimal256) -> (r: Result<Decimal256, OverflowError>)
        ensures match r { Ok(x) => x@ == (self@ * o@) / DEC, Err(_) => (self@ * o@) / DEC > u256_max() }
    { unimplemented!() }
    #[verifier::external_body]
    pub fn checked_div(self, o: Decimal256) -> (r: Result<Decimal256, CheckedFromRatioError>)
        ensures match r { Ok(x) => o@ != 0 && x@ == (self@ * DEC) / o@, Err(_) => o@ == 0 || (self@ * DEC) / o@ > u256_max() }
    { unimplemented!() }
    #[verifier::external_body]
    pub fn checked_add(self, o: Decimal256) -> (r: Result<Decimal256, OverflowError>)
        ensures match r { Ok(x) => x@ == self@ + o@, Err(_) => self@ + o@ > u256_max() }
    { unimplemented!() }
    #[verifier::external_body]
    pub fn checked_sub(self, o: Decimal256) -> (r: Result<Decimal256, OverflowError>)
        ensures match r { Ok(x) => self@ >= o@ && x@ == self@ - o@, Err(_) => self@ < o@ }
    { unimplemented!() }
    /// `checked_pow(2)` = floor(a*a / 10^18) (one floor multiplication); other exponents are left unspecified
    #[verifier::external_body]
    pub fn checked_pow(self, e: u32) -> (r: Result<Decimal256, OverflowError>)
        ensures e == 2 ==> match r { Ok(x) => x@ == (self@ * self@) / DEC, Err(_) => (self@ * self@) / DEC > u256_max() }
    { unimplemented!() }
    #[verifier::external_body]
    pub fn pow(self, e: u32) -> (r: Decimal256)
        ensures e == 2 ==> (self@ * self@) / DEC <= u256_max() && r@ == (self@ * self@) / DEC
    { unimplemented!() }
    #[verifier::external_body]
    pub fn to_uint_floor(self) -> (r: Uint256) ensures r@ == self@ / DEC { unimplemented!() }
    #[verifier::external_body]
    pub fn to_uint_ceil(self) -> (r: Uint256) ensures r@ == (self@ + DEC - 1) as nat / DEC { unimplemented!() }
    /// `inv()`: None for zero, else floor(10^36 / a)
    #[verifier::external_body]
    pub fn inv(&self) -> (r: Option<Decimal256>)
        ensures match r { Some(x) => self@ != 0 && x@ == (DEC * DEC) / self@, None => self@ == 0 }
    { unimplemented!() }
}
pub open spec fn dec_from_atomics(v: nat, places: nat) -> nat {
    if places <= 18 { v * nat_pow(10, (18 - places) as nat) } else { v / nat_pow(10, (places - 18) as nat) }
}


impl core::ops::AddAssign for Decimal {
    #[verifier::external_body]
    fn add_assign(&mut self, o: Decimal) ensures old(self)@ + o@ <= U128_MAX, final(self)@ == old(self)@ + o@ { unimplemented!() }
}
impl core::ops::Sub for Decimal256 {
    type Output = Decimal256;
    #[verifier::external_body]
    fn sub(self, o: Decimal256) -> (r: Decimal256) ensures self@ >= o@, r@ == self@ - o@ { unimplemented!() }
}
impl SubSpecImpl<Decimal256> for Decimal256 {
    open spec fn obeys_sub_spec() -> bool { false }
    open spec fn sub_req(self, o: Decimal256) -> bool { true }
    uninterp spec fn sub_spec(self, o: Decimal256) -> Decimal256;
}
impl core::ops::Mul for Decimal256 {
    type Output = Decimal256;
    #[verifier::external_body]
    fn mul(self, o: Decimal256) -> (r: Decimal256) ensures (self@ * o@) / DEC <= u256_max(), r@ == (self@ * o@) / DEC { unimplemented!() }
}
impl MulSpecImpl<Decimal256> for Decimal256 {
    open spec fn obeys_mul_spec() -> bool { false }
    open spec fn mul_req(self, o: Decimal256) -> bool { true }
    uninterp spec fn mul_spec(self, o: Decimal256) -> Decimal256;
}
impl core::ops::Div for Decimal256 {
    type Output = Decimal256;
    #[verifier::external_body]
    fn div(self, o: Decimal256) -> (r: Decimal256) ensures o@ != 0, (self@ * DEC) / o@ <= u256_max(), r@ == (self@ * DEC) / o@ { unimplemented!() }
}
impl DivSpecImpl<Decimal256> for Decimal256 {
    open spec fn obeys_div_spec() -> bool { false }
    open spec fn div_req(self, o: Decimal256) -> bool { true }
    uninterp spec fn div_spec(self, o: Decimal256) -> Decimal256;
}

} // verus!
