// ===== shim/iter.rs — iterator-adapter helpers (R5) =====
// `.iter().position(f)` etc. are rewritten to these extension methods; each is VERIFIED here
// against a closure-aware specification (call_requires / call_ensures), not assumed.
verus! {
pub trait IterExt<T> {
    spec fn elems(&self) -> Seq<T>;
    fn iter_position<F: Fn(&T) -> bool>(&self, f: F) -> (r: Option<usize>)
        requires forall|i: int| 0 <= i < self.elems().len() ==> call_requires(f, (&#[trigger] self.elems()[i],)),
        ensures match r {
            Some(k) => k < self.elems().len() && call_ensures(f, (&self.elems()[k as int],), true)
                && forall|j: int| 0 <= j < k ==> call_ensures(f, (&#[trigger] self.elems()[j],), false),
            None => forall|j: int| 0 <= j < self.elems().len() ==> call_ensures(f, (&#[trigger] self.elems()[j],), false),
        };
    fn iter_any<F: Fn(&T) -> bool>(&self, f: F) -> (r: bool)
        requires forall|i: int| 0 <= i < self.elems().len() ==> call_requires(f, (&#[trigger] self.elems()[i],)),
        ensures r ==> exists|k: int| 0 <= k < self.elems().len() && call_ensures(f, (&#[trigger] self.elems()[k],), true),
            !r ==> forall|j: int| 0 <= j < self.elems().len() ==> call_ensures(f, (&#[trigger] self.elems()[j],), false);
    fn iter_find<F: Fn(&T) -> bool>(&self, f: F) -> (r: Option<&T>)
        requires forall|i: int| 0 <= i < self.elems().len() ==> call_requires(f, (&#[trigger] self.elems()[i],)),
        ensures match r {
            Some(x) => exists|k: int| 0 <= k < self.elems().len() && *x == #[trigger] self.elems()[k] && call_ensures(f, (&self.elems()[k],), true)
                && forall|j: int| 0 <= j < k ==> call_ensures(f, (&#[trigger] self.elems()[j],), false),
            None => forall|j: int| 0 <= j < self.elems().len() ==> call_ensures(f, (&#[trigger] self.elems()[j],), false),
        };
    fn iter_all<F: Fn(&T) -> bool>(&self, f: F) -> (r: bool)
        requires forall|i: int| 0 <= i < self.elems().len() ==> call_requires(f, (&#[trigger] self.elems()[i],)),
        ensures r ==> forall|j: int| 0 <= j < self.elems().len() ==> call_ensures(f, (&#[trigger] self.elems()[j],), true),
            !r ==> exists|k: int| 0 <= k < self.elems().len() && call_ensures(f, (&#[trigger] self.elems()[k],), false);
}
impl<T> IterExt<T> for Vec<T> {
    open spec fn elems(&self) -> Seq<T> { self@ }
    fn iter_position<F: Fn(&T) -> bool>(&self, f: F) -> (r: Option<usize>) {
        let mut i: usize = 0;
        while i < self.len()
            invariant i <= self.len(), self.elems() == self@,
                forall|j: int| 0 <= j < self.elems().len() ==> call_requires(f, (&#[trigger] self.elems()[j],)),
                forall|j: int| 0 <= j < i ==> call_ensures(f, (&#[trigger] self.elems()[j],), false),
            decreases self.len() - i,
        {
            assert(call_requires(f, (&self.elems()[i as int],)));
            if f(&self[i]) { return Some(i); }
            i += 1;
        }
        None
    }
    fn iter_find<F: Fn(&T) -> bool>(&self, f: F) -> (r: Option<&T>) {
        let mut i: usize = 0;
        while i < self.len()
            invariant i <= self.len(), self.elems() == self@,
                forall|j: int| 0 <= j < self.elems().len() ==> call_requires(f, (&#[trigger] self.elems()[j],)),
                forall|j: int| 0 <= j < i ==> call_ensures(f, (&#[trigger] self.elems()[j],), false),
            decreases self.len() - i,
        {
            assert(call_requires(f, (&self.elems()[i as int],)));
            if f(&self[i]) {
                assert(call_ensures(f, (&self.elems()[i as int],), true));
                return Some(&self[i]);
            }
            i += 1;
        }
        None
    }
    fn iter_any<F: Fn(&T) -> bool>(&self, f: F) -> (r: bool) {
        let mut i: usize = 0;
        while i < self.len()
            invariant i <= self.len(), self.elems() == self@,
                forall|j: int| 0 <= j < self.elems().len() ==> call_requires(f, (&#[trigger] self.elems()[j],)),
                forall|j: int| 0 <= j < i ==> call_ensures(f, (&#[trigger] self.elems()[j],), false),
            decreases self.len() - i,
        {
            assert(call_requires(f, (&self.elems()[i as int],)));
            if f(&self[i]) {
                assert(call_ensures(f, (&self.elems()[i as int],), true));
                return true;
            }
            i += 1;
        }
        false
    }
    fn iter_all<F: Fn(&T) -> bool>(&self, f: F) -> (r: bool) {
        let mut i: usize = 0;
        while i < self.len()
            invariant i <= self.len(), self.elems() == self@,
                forall|j: int| 0 <= j < self.elems().len() ==> call_requires(f, (&#[trigger] self.elems()[j],)),
                forall|j: int| 0 <= j < i ==> call_ensures(f, (&#[trigger] self.elems()[j],), true),
            decreases self.len() - i,
        {
            assert(call_requires(f, (&self.elems()[i as int],)));
            if !f(&self[i]) {
                assert(call_ensures(f, (&self.elems()[i as int],), false));
                return false;
            }
            i += 1;
        }
        true
    }
}

/// `.iter().max()` / `.iter().min()` on `Vec<u8>` (asset decimals): verified, returns a reference to an extremal element
pub trait IterMaxU8 {
    fn iter_max(&self) -> (r: Option<&u8>);
    fn iter_min(&self) -> (r: Option<&u8>);
}
pub open spec fn seq_max_u8(s: Seq<u8>, m: u8) -> bool {
    (exists|k: int| 0 <= k < s.len() && s[k] == m) && (forall|j: int| 0 <= j < s.len() ==> s[j] <= m)
}
pub open spec fn seq_min_u8(s: Seq<u8>, m: u8) -> bool {
    (exists|k: int| 0 <= k < s.len() && s[k] == m) && (forall|j: int| 0 <= j < s.len() ==> s[j] >= m)
}
impl IterMaxU8 for Vec<u8> {
    fn iter_max(&self) -> (r: Option<&u8>)
        ensures match r { Some(m) => seq_max_u8(self@, *m), None => self@.len() == 0 }
    {
        if self.len() == 0 { return None; }
        let mut best: usize = 0;
        let mut i: usize = 1;
        while i < self.len()
            invariant 1 <= i <= self.len(), best < i, forall|j: int| 0 <= j < i ==> self@[j] <= self@[best as int],
            decreases self.len() - i,
        {
            if self[i] >= self[best] { best = i; }
            i += 1;
        }
        Some(&self[best])
    }
    fn iter_min(&self) -> (r: Option<&u8>)
        ensures match r { Some(m) => seq_min_u8(self@, *m), None => self@.len() == 0 }
    {
        if self.len() == 0 { return None; }
        let mut best: usize = 0;
        let mut i: usize = 1;
        while i < self.len()
            invariant 1 <= i <= self.len(), best < i, forall|j: int| 0 <= j < i ==> self@[j] >= self@[best as int],
            decreases self.len() - i,
        {
            if self[i] < self[best] { best = i; }
            i += 1;
        }
        Some(&self[best])
    }
}

/// `.iter().map(f).collect::<Vec<_>>()`, `.iter().map(f).collect::<Result<Vec<_>, E>>()`, `.into_iter().filter(p).collect()`
pub trait IterMapExt<T> {
    spec fn mv(&self) -> Seq<T>;
    fn iter_map<U, F: Fn(&T) -> U>(&self, f: F) -> (r: Vec<U>)
        requires forall|i: int| 0 <= i < self.mv().len() ==> call_requires(f, (&#[trigger] self.mv()[i],)),
        ensures r@.len() == self.mv().len(), forall|i: int| 0 <= i < self.mv().len() ==> call_ensures(f, (&self.mv()[i],), #[trigger] r@[i]);
    fn iter_try_map<U, E, F: Fn(&T) -> Result<U, E>>(&self, f: F) -> (r: Result<Vec<U>, E>)
        requires forall|i: int| 0 <= i < self.mv().len() ==> call_requires(f, (&#[trigger] self.mv()[i],)),
        ensures match r {
            Ok(v) => v@.len() == self.mv().len() && forall|i: int| 0 <= i < self.mv().len() ==> call_ensures(f, (&self.mv()[i],), Ok::<U, E>(#[trigger] v@[i])),
            Err(e) => exists|i: int| 0 <= i < self.mv().len() && call_ensures(f, (&#[trigger] self.mv()[i],), Err::<U, E>(e)),
        };
}
pub trait IterCountExt<T> {
    spec fn cv(&self) -> Seq<T>;
    /// `.iter().filter(f).count()`: number of elements on which the predicate returned true
    fn iter_count<F: Fn(&T) -> bool>(&self, f: F) -> (r: usize)
        requires forall|i: int| 0 <= i < self.cv().len() ==> call_requires(f, (&#[trigger] self.cv()[i],)),
        ensures exists|p: spec_fn(T) -> bool| r == #[trigger] self.cv().filter(p).len() && (forall|x: T| call_ensures(f, (&x,), #[trigger] p(x)))
            // consequence of r == filter(p).len(): two accepted positions give a count of at least two
            && (forall|i: int, j: int| 0 <= i < j < self.cv().len() && p(#[trigger] self.cv()[i]) && p(#[trigger] self.cv()[j]) ==> r >= 2);
}
impl<T> IterCountExt<T> for Vec<T> {
    open spec fn cv(&self) -> Seq<T> { self@ }
    #[verifier::external_body]
    fn iter_count<F: Fn(&T) -> bool>(&self, f: F) -> (r: usize) { unimplemented!() }
}
pub trait IntoIterFilterExt<T>: Sized {
    spec fn fv(&self) -> Seq<T>;
    fn into_iter_filter<F: Fn(&T) -> bool>(self, f: F) -> (r: Vec<T>)
        requires forall|i: int| 0 <= i < self.fv().len() ==> call_requires(f, (&#[trigger] self.fv()[i],)),
        ensures exists|p: spec_fn(T) -> bool| r@ == #[trigger] self.fv().filter(p) && forall|x: T| call_ensures(f, (&x,), #[trigger] p(x));
}
/// `r` is `s` with the elements rejected by `keep` removed (order preserved)
pub open spec fn filtered<T>(s: Seq<T>, keep: spec_fn(T) -> bool, r: Seq<T>) -> bool {
    r == s.filter(keep)
}
impl<T> IterMapExt<T> for Vec<T> {
    open spec fn mv(&self) -> Seq<T> { self@ }
    fn iter_map<U, F: Fn(&T) -> U>(&self, f: F) -> (r: Vec<U>)
    {
        let mut out: Vec<U> = Vec::new();
        let mut i: usize = 0;
        while i < self.len()
            invariant i <= self.len(), out@.len() == i, self.mv() == self@,
                forall|j: int| 0 <= j < self.mv().len() ==> call_requires(f, (&#[trigger] self.mv()[j],)),
                forall|j: int| 0 <= j < i ==> call_ensures(f, (&self.mv()[j],), #[trigger] out@[j]),
            decreases self.len() - i,
        {
            assert(call_requires(f, (&self.mv()[i as int],)));
            let u = f(&self[i]);
            out.push(u);
            i += 1;
        }
        out
    }
    fn iter_try_map<U, E, F: Fn(&T) -> Result<U, E>>(&self, f: F) -> (r: Result<Vec<U>, E>)
    {
        let mut out: Vec<U> = Vec::new();
        let mut i: usize = 0;
        while i < self.len()
            invariant i <= self.len(), out@.len() == i, self.mv() == self@,
                forall|j: int| 0 <= j < self.mv().len() ==> call_requires(f, (&#[trigger] self.mv()[j],)),
                forall|j: int| 0 <= j < i ==> call_ensures(f, (&self.mv()[j],), Ok::<U, E>(#[trigger] out@[j])),
            decreases self.len() - i,
        {
            assert(call_requires(f, (&self.mv()[i as int],)));
            match f(&self[i]) {
                Ok(u) => { out.push(u); }
                Err(e) => { return Err(e); }
            }
            i += 1;
        }
        Ok(out)
    }
}
impl<T> IntoIterFilterExt<T> for Vec<T> {
    open spec fn fv(&self) -> Seq<T> { self@ }
    /// trusted (external_body): keeps, in order, exactly the elements on which the predicate returned true
    /// (`p(x)` is the value `f` returned on `x`)
    #[verifier::external_body]
    fn into_iter_filter<F: Fn(&T) -> bool>(self, f: F) -> (r: Vec<T>)
    { unimplemented!() }
}

pub proof fn lemma_filter_same_pred<T>(s: Seq<T>, p1: spec_fn(T) -> bool, p2: spec_fn(T) -> bool)
    requires forall|x: T| #[trigger] p1(x) == p2(x),
    ensures s.filter(p1) == s.filter(p2),
    decreases s.len(),
{
    reveal(Seq::filter);
    if s.len() > 0 {
        lemma_filter_same_pred(s.drop_last(), p1, p2);
    }
}
/// every element of a filtered sequence occurs in the original sequence and satisfies the predicate
pub proof fn lemma_filter_member<T>(s: Seq<T>, p: spec_fn(T) -> bool, k: int)
    requires 0 <= k < s.filter(p).len(),
    ensures p(s.filter(p)[k]), exists|i: int| 0 <= i < s.len() && #[trigger] s[i] == s.filter(p)[k],
    decreases s.len(),
{
    reveal(Seq::filter);
    if s.len() > 0 {
        let sub = s.drop_last().filter(p);
        if p(s.last()) {
            assert(s.filter(p) == sub.push(s.last()));
            if k < sub.len() {
                lemma_filter_member(s.drop_last(), p, k);
                let i = choose|i: int| 0 <= i < s.drop_last().len() && #[trigger] s.drop_last()[i] == sub[k];
                assert(s[i] == s.filter(p)[k]);
            } else {
                assert(s[s.len() - 1] == s.filter(p)[k]);
            }
        } else {
            assert(s.filter(p) == sub);
            lemma_filter_member(s.drop_last(), p, k);
            let i = choose|i: int| 0 <= i < s.drop_last().len() && #[trigger] s.drop_last()[i] == sub[k];
            assert(s[i] == s.filter(p)[k]);
        }
    }
}
/// `r` was obtained by filtering `s` with some predicate that agrees with `p2` everywhere  =>  r == s.filter(p2)
pub proof fn lemma_filter_congr<T>(s: Seq<T>, r: Seq<T>, p2: spec_fn(T) -> bool)
    requires exists|p1: spec_fn(T) -> bool| r == #[trigger] s.filter(p1) && forall|x: T| #[trigger] p1(x) == p2(x),
    ensures r == s.filter(p2),
{
    let p1 = choose|p1: spec_fn(T) -> bool| r == #[trigger] s.filter(p1) && forall|x: T| #[trigger] p1(x) == p2(x);
    lemma_filter_same_pred(s, p1, p2);
}

/// slices as iterables: same contracts as for Vec (trusted, external_body)
impl<T> IterExt<T> for [T] {
    open spec fn elems(&self) -> Seq<T> { self@ }
    #[verifier::external_body]
    fn iter_position<F: Fn(&T) -> bool>(&self, f: F) -> (r: Option<usize>) { unimplemented!() }
    #[verifier::external_body]
    fn iter_any<F: Fn(&T) -> bool>(&self, f: F) -> (r: bool) { unimplemented!() }
    #[verifier::external_body]
    fn iter_find<F: Fn(&T) -> bool>(&self, f: F) -> (r: Option<&T>) { unimplemented!() }
    #[verifier::external_body]
    fn iter_all<F: Fn(&T) -> bool>(&self, f: F) -> (r: bool) { unimplemented!() }
}
impl<T> IterMapExt<T> for [T] {
    open spec fn mv(&self) -> Seq<T> { self@ }
    #[verifier::external_body]
    fn iter_map<U, F: Fn(&T) -> U>(&self, f: F) -> (r: Vec<U>) { unimplemented!() }
    #[verifier::external_body]
    fn iter_try_map<U, E, F: Fn(&T) -> Result<U, E>>(&self, f: F) -> (r: Result<Vec<U>, E>) { unimplemented!() }
}

/// `<[T]>::to_vec`: element-wise clone
pub assume_specification<T: Clone> [ <[T]>::to_vec ] (s: &[T]) -> (r: Vec<T>)
    ensures r@.len() == s@.len(), forall|i: int| 0 <= i < s@.len() ==> call_ensures(T::clone, (&#[trigger] s@[i],), r@[i]);

/// `Result::unwrap_or`
pub assume_specification<T, E> [ Result::<T, E>::unwrap_or ] (r: Result<T, E>, d: T) -> (out: T)
    ensures out == (match r { Ok(v) => v, Err(_) => d });

/// `.into_iter().partition(f)` (R5): (accepted, rejected) in order; `p(x)` is the value `f` returned on `x`
pub trait PartitionExt<T>: Sized {
    spec fn pv(&self) -> Seq<T>;
    fn into_iter_partition<F: Fn(&T) -> bool>(self, f: F) -> (r: (Vec<T>, Vec<T>))
        requires forall|i: int| 0 <= i < self.pv().len() ==> call_requires(f, (&#[trigger] self.pv()[i],)),
        ensures exists|p: spec_fn(T) -> bool| r.0@ == #[trigger] self.pv().filter(p) && r.1@ == self.pv().filter(|x: T| !p(x))
            && forall|x: T| call_ensures(f, (&x,), #[trigger] p(x));
}
impl<T> PartitionExt<T> for Vec<T> {
    open spec fn pv(&self) -> Seq<T> { self@ }
    #[verifier::external_body]
    fn into_iter_partition<F: Fn(&T) -> bool>(self, f: F) -> (r: (Vec<T>, Vec<T>)) { unimplemented!() }
}

/// a partition keeps every element exactly once: |filter(p)| + |filter(!p)| == |s|
pub proof fn lemma_partition_len<T>(s: Seq<T>, p: spec_fn(T) -> bool)
    ensures s.filter(p).len() + s.filter(|x: T| !p(x)).len() == s.len(),
    decreases s.len(),
{
    reveal(Seq::filter);
    if s.len() > 0 { lemma_partition_len(s.drop_last(), p); }
}
/// `r` was obtained by filtering `s` with some predicate that implies `q`  =>  every element of r is in s and satisfies q
pub open spec fn elem_of<T>(s: Seq<T>, x: T) -> bool { exists|i: int| 0 <= i < s.len() && #[trigger] s[i] == x }
pub proof fn lemma_filter_implies<T>(s: Seq<T>, r: Seq<T>, q: spec_fn(T) -> bool)
    requires exists|p1: spec_fn(T) -> bool| r == #[trigger] s.filter(p1) && forall|x: T| #[trigger] p1(x) ==> q(x),
    ensures forall|k: int| 0 <= k < r.len() ==> q(#[trigger] r[k]),
        forall|k: int| 0 <= k < r.len() ==> elem_of(s, #[trigger] r[k]),
{
    let p1 = choose|p1: spec_fn(T) -> bool| r == #[trigger] s.filter(p1) && forall|x: T| #[trigger] p1(x) ==> q(x);
    assert forall|k: int| 0 <= k < r.len() implies q(#[trigger] r[k]) by {
        lemma_filter_member(s, p1, k);
    }
    assert forall|k: int| 0 <= k < r.len() implies elem_of(s, #[trigger] r[k]) by {
        lemma_filter_member(s, p1, k);
    }
}
/// `slice::sort_by` (R5: `.sort_by(` -> `.sort_by_(`): the result is a permutation of the input
/// (the order itself is left uninterpreted)
pub trait SortExt<T> {
    spec fn sv_(&self) -> Seq<T>;
    fn sort_by_<F: Fn(&T, &T) -> core::cmp::Ordering>(&mut self, f: F)
        ensures final(self).sv_().to_multiset() == old(self).sv_().to_multiset(), final(self).sv_().len() == old(self).sv_().len(),
            final(self).sv_() == sorted_by_denom_spec(old(self).sv_());
}
pub uninterp spec fn sorted_by_denom_spec<T>(s: Seq<T>) -> Seq<T>;
impl<T> SortExt<T> for [T] {
    open spec fn sv_(&self) -> Seq<T> { self@ }
    #[verifier::external_body]
    fn sort_by_<F: Fn(&T, &T) -> core::cmp::Ordering>(&mut self, f: F) { unimplemented!() }
}
impl<T> SortExt<T> for Vec<T> {
    open spec fn sv_(&self) -> Seq<T> { self@ }
    #[verifier::external_body]
    fn sort_by_<F: Fn(&T, &T) -> core::cmp::Ordering>(&mut self, f: F) { unimplemented!() }
}

} // verus!
