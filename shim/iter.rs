// ===== shim/iter.rs — iterator-adapter helpers (R5) =====
// `.iter().position(f)` etc. are rewritten to these extension methods; each is VERIFIED here
// against a closure-aware specification (call_requires / call_ensures), not assumed.
verus! {
pub trait IterExt<T> {
    spec fn elems(&self) -> Seq<T>;
    fn iter_position<F: Fn(&T) -> bool>(&self, f: F) -> (r: Option<usize>)
        requires forall|i: int| 0 <= i < self.elems().len() ==> call_requires(f, (&#[trigger] self.elems()[i],)),
        ensures match r {
            Some(k) => k < self.elems().len() && call_ensures(f, (&self.elems()[k as int],), true)
                && forall|j: int| 0 <= j < k ==> call_ensures(f, (&#[trigger] self.elems()[j],), false),
            None => forall|j: int| 0 <= j < self.elems().len() ==> call_ensures(f, (&#[trigger] self.elems()[j],), false),
        };
    fn iter_any<F: Fn(&T) -> bool>(&self, f: F) -> (r: bool)
        requires forall|i: int| 0 <= i < self.elems().len() ==> call_requires(f, (&#[trigger] self.elems()[i],)),
        ensures r ==> exists|k: int| 0 <= k < self.elems().len() && call_ensures(f, (&#[trigger] self.elems()[k],), true),
            !r ==> forall|j: int| 0 <= j < self.elems().len() ==> call_ensures(f, (&#[trigger] self.elems()[j],), false);
    fn iter_all<F: Fn(&T) -> bool>(&self, f: F) -> (r: bool)
        requires forall|i: int| 0 <= i < self.elems().len() ==> call_requires(f, (&#[trigger] self.elems()[i],)),
        ensures r ==> forall|j: int| 0 <= j < self.elems().len() ==> call_ensures(f, (&#[trigger] self.elems()[j],), true),
            !r ==> exists|k: int| 0 <= k < self.elems().len() && call_ensures(f, (&#[trigger] self.elems()[k],), false);
}
impl<T> IterExt<T> for Vec<T> {
    open spec fn elems(&self) -> Seq<T> { self@ }
    fn iter_position<F: Fn(&T) -> bool>(&self, f: F) -> (r: Option<usize>) {
        let mut i: usize = 0;
        while i < self.len()
            invariant i <= self.len(), self.elems() == self@,
                forall|j: int| 0 <= j < self.elems().len() ==> call_requires(f, (&#[trigger] self.elems()[j],)),
                forall|j: int| 0 <= j < i ==> call_ensures(f, (&#[trigger] self.elems()[j],), false),
            decreases self.len() - i,
        {
            assert(call_requires(f, (&self.elems()[i as int],)));
            if f(&self[i]) { return Some(i); }
            i += 1;
        }
        None
    }
    fn iter_any<F: Fn(&T) -> bool>(&self, f: F) -> (r: bool) {
        let mut i: usize = 0;
        while i < self.len()
            invariant i <= self.len(), self.elems() == self@,
                forall|j: int| 0 <= j < self.elems().len() ==> call_requires(f, (&#[trigger] self.elems()[j],)),
                forall|j: int| 0 <= j < i ==> call_ensures(f, (&#[trigger] self.elems()[j],), false),
            decreases self.len() - i,
        {
            assert(call_requires(f, (&self.elems()[i as int],)));
            if f(&self[i]) {
                assert(call_ensures(f, (&self.elems()[i as int],), true));
                return true;
            }
            i += 1;
        }
        false
    }
    fn iter_all<F: Fn(&T) -> bool>(&self, f: F) -> (r: bool) {
        let mut i: usize = 0;
        while i < self.len()
            invariant i <= self.len(), self.elems() == self@,
                forall|j: int| 0 <= j < self.elems().len() ==> call_requires(f, (&#[trigger] self.elems()[j],)),
                forall|j: int| 0 <= j < i ==> call_ensures(f, (&#[trigger] self.elems()[j],), true),
            decreases self.len() - i,
        {
            assert(call_requires(f, (&self.elems()[i as int],)));
            if !f(&self[i]) {
                assert(call_ensures(f, (&self.elems()[i as int],), false));
                return false;
            }
            i += 1;
        }
        true
    }
}

/// `.iter().max()` / `.iter().min()` on `Vec<u8>` (asset decimals): verified, returns a reference to an extremal element
pub trait IterMaxU8 {
    fn iter_max(&self) -> (r: Option<&u8>);
    fn iter_min(&self) -> (r: Option<&u8>);
}
pub open spec fn seq_max_u8(s: Seq<u8>, m: u8) -> bool {
    (exists|k: int| 0 <= k < s.len() && s[k] == m) && (forall|j: int| 0 <= j < s.len() ==> s[j] <= m)
}
pub open spec fn seq_min_u8(s: Seq<u8>, m: u8) -> bool {
    (exists|k: int| 0 <= k < s.len() && s[k] == m) && (forall|j: int| 0 <= j < s.len() ==> s[j] >= m)
}
impl IterMaxU8 for Vec<u8> {
    fn iter_max(&self) -> (r: Option<&u8>)
        ensures match r { Some(m) => seq_max_u8(self@, *m), None => self@.len() == 0 }
    {
        if self.len() == 0 { return None; }
        let mut best: usize = 0;
        let mut i: usize = 1;
        while i < self.len()
            invariant 1 <= i <= self.len(), best < i, forall|j: int| 0 <= j < i ==> self@[j] <= self@[best as int],
            decreases self.len() - i,
        {
            if self[i] >= self[best] { best = i; }
            i += 1;
        }
        Some(&self[best])
    }
    fn iter_min(&self) -> (r: Option<&u8>)
        ensures match r { Some(m) => seq_min_u8(self@, *m), None => self@.len() == 0 }
    {
        if self.len() == 0 { return None; }
        let mut best: usize = 0;
        let mut i: usize = 1;
        while i < self.len()
            invariant 1 <= i <= self.len(), best < i, forall|j: int| 0 <= j < i ==> self@[j] >= self@[best as int],
            decreases self.len() - i,
        {
            if self[i] < self[best] { best = i; }
            i += 1;
        }
        Some(&self[best])
    }
}
} // verus!
