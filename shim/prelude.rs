// ===== shim/prelude.rs — imports only (unit ns: generated storage-namespace lemmas need nothing else) =====
use vstd::prelude::*;
