// ===== shim/core.rs — TRUSTED Verus specification of the cosmwasm-std value types =====
// Everything in this file is an *assumed contract on a dependency* (cosmwasm-std 2.1,
// cw-utils, cw-ownable).  Numeric types are modelled as bounded mathematical integers:
// the `v` field is the machine value, operations are specified by the documented integer
// formula together with an explicit range side condition (Ok iff in range).
// Panicking operations are specified for the runs that return (partial correctness): a panic
// aborts the transaction; see shim/num.rs.

use vstd::prelude::*;
use vstd::std_specs::convert::FromSpecImpl;
use vstd::std_specs::cmp::PartialEqSpecImpl;

macro_rules! ensure {
    ($cond:expr, $e:expr $(,)?) => {
        if !($cond) {
            return Err(core::convert::From::from($e));
        }
    };
}

verus! {

pub spec const U64_MAX: nat = 0xffff_ffff_ffff_ffff;
pub spec const U128_MAX: nat = 0xffff_ffff_ffff_ffff_ffff_ffff_ffff_ffff;
pub open spec fn pow2_256() -> nat { (U128_MAX + 1) * (U128_MAX + 1) }
pub open spec fn u256_max() -> nat { (pow2_256() - 1) as nat }
pub open spec fn u512_max() -> nat { (pow2_256() * pow2_256() - 1) as nat }
pub spec const DEC: nat = 1_000_000_000_000_000_000;

// ---------------------------------------------------------------- strings
/// Shim for `String`/`&str`: a ghost sequence of characters. Equality is view equality.
pub struct Str { pub v: Ghost<Seq<char>> }

impl View for Str { type V = Seq<char>; open spec fn view(&self) -> Seq<char> { self.v@ } }

impl Clone for Str {
    #[verifier::external_body]
    fn clone(&self) -> (r: Str) ensures r == *self { Str { v: Ghost::assume_new() } }
}

impl PartialEq for Str {
    #[verifier::external_body]
    fn eq(&self, other: &Str) -> (r: bool) ensures r == (self@ == other@) { unimplemented!() }
}
impl PartialEqSpecImpl for Str {
    open spec fn obeys_eq_spec() -> bool { true }
    open spec fn eq_spec(&self, other: &Str) -> bool { self@ == other@ }
}

impl<'a> PartialEq<Str> for &'a Str {
    #[verifier::external_body]
    fn eq(&self, other: &Str) -> (r: bool) ensures r == ((*self)@ == other@) { unimplemented!() }
}
impl<'a> PartialEqSpecImpl<Str> for &'a Str {
    open spec fn obeys_eq_spec() -> bool { true }
    open spec fn eq_spec(&self, other: &Str) -> bool { (*self)@ == other@ }
}
impl<'a> PartialEq<&'a Str> for Str {
    #[verifier::external_body]
    fn eq(&self, other: &&'a Str) -> (r: bool) ensures r == (self@ == (*other)@) { unimplemented!() }
}
impl<'a> PartialEqSpecImpl<&'a Str> for Str {
    open spec fn obeys_eq_spec() -> bool { true }
    open spec fn eq_spec(&self, other: &&'a Str) -> bool { self@ == (*other)@ }
}
/// lexicographic order on strings (`Ord for String`): uninterpreted total order
pub uninterp spec fn str_cmp(a: Seq<char>, b: Seq<char>) -> core::cmp::Ordering;
pub uninterp spec fn str_lower(s: Seq<char>) -> Seq<char>;
pub uninterp spec fn str_eq_nocase(s: Seq<char>, o: Seq<char>) -> bool;
pub uninterp spec fn str_ends_with(s: Seq<char>, o: Seq<char>) -> bool;
pub uninterp spec fn str_starts_with(s: Seq<char>, o: Seq<char>) -> bool;
pub uninterp spec fn str_upper(s: Seq<char>) -> Seq<char>;
impl Str {
    #[verifier::external_body]
    pub fn cmp(&self, o: &Str) -> (r: core::cmp::Ordering) ensures r == str_cmp(self@, o@) { unimplemented!() }
    /// `str::ends_with` / `starts_with` on whole strings: uninterpreted relations of the two texts (reflexive)
    #[verifier::external_body]
    #[verifier::when_used_as_spec(spec_ends_with)]
    pub fn ends_with(&self, o: &Str) -> (r: bool) ensures r == self.spec_ends_with(o) { unimplemented!() }
    pub open spec fn spec_ends_with(&self, o: &Str) -> bool { str_ends_with(self@, o@) }
    #[verifier::external_body]
    #[verifier::when_used_as_spec(spec_starts_with)]
    pub fn starts_with(&self, o: &Str) -> (r: bool) ensures r == self.spec_starts_with(o) { unimplemented!() }
    pub open spec fn spec_starts_with(&self, o: &Str) -> bool { str_starts_with(self@, o@) }
    /// `str::eq_ignore_ascii_case`: uninterpreted relation of the two texts
    #[verifier::external_body]
    #[verifier::when_used_as_spec(spec_eq_ignore_ascii_case)]
    pub fn eq_ignore_ascii_case(&self, o: &Str) -> (r: bool) ensures r == self.spec_eq_ignore_ascii_case(o) { unimplemented!() }
    pub open spec fn spec_eq_ignore_ascii_case(&self, o: &Str) -> bool { str_eq_nocase(self@, o@) }
    /// `str::to_lowercase` / `to_uppercase`: uninterpreted functions of the text
    #[verifier::external_body]
    pub fn to_lowercase(&self) -> (r: Str) ensures r@ == str_lower(self@) { unimplemented!() }
    #[verifier::external_body]
    pub fn to_uppercase(&self) -> (r: Str) ensures r@ == str_upper(self@) { unimplemented!() }
    /// string literal
    #[verifier::external_body]
    pub fn lit(s: &'static str) -> (r: Str) ensures r@ == s@ { unimplemented!() }
    /// `{x}` of a String / Addr inside an identifier-building `format!`
    #[verifier::external_body]
    pub fn of<A: AsStr>(a: &A) -> (r: Str) ensures r@ == a.sv() { unimplemented!() }
    /// `{n}` of a u64 inside an identifier-building `format!`
    #[verifier::external_body]
    pub fn from_u64(n: u64) -> (r: Str) ensures r@ == u64_str(n) { unimplemented!() }
    /// opaque result of `format!` / `to_string()` on non-identifier data (text is dropped)
    #[verifier::external_body]
    pub fn opaque() -> (r: Str) { unimplemented!() }
    #[verifier::external_body]
    pub fn concat(a: &Str, b: &Str) -> (r: Str) ensures r@ == a@ + b@ { unimplemented!() }
    #[verifier::external_body]
    pub fn as_str(&self) -> (r: &Str) ensures *r == *self { unimplemented!() }
    #[verifier::external_body]
    pub fn len(&self) -> (r: usize) ensures r as nat == self@.len() { unimplemented!() }
    #[verifier::external_body]
    pub fn is_empty(&self) -> (r: bool) ensures r == (self@.len() == 0) { unimplemented!() }
}

// ---------------------------------------------------------------- Addr
pub struct Addr { pub s: Str }
impl View for Addr { type V = Seq<char>; open spec fn view(&self) -> Seq<char> { self.s@ } }
impl Clone for Addr {
    #[verifier::external_body]
    fn clone(&self) -> (r: Addr) ensures r == *self { unimplemented!() }
}
impl PartialEq for Addr {
    #[verifier::external_body]
    fn eq(&self, other: &Addr) -> (r: bool) ensures r == (self@ == other@) { unimplemented!() }
}
impl PartialEqSpecImpl for Addr {
    open spec fn obeys_eq_spec() -> bool { true }
    open spec fn eq_spec(&self, other: &Addr) -> bool { self@ == other@ }
}
impl Addr {
    #[verifier::external_body]
    pub fn unchecked(s: Str) -> (r: Addr) ensures r@ == s@ { unimplemented!() }
    #[verifier::external_body]
    pub fn into_string(self) -> (r: Str) ensures r@ == self@ { unimplemented!() }
    #[verifier::external_body]
    pub fn as_str(&self) -> (r: &Str) ensures r@ == self@ { unimplemented!() }
    #[verifier::external_body]
    pub fn as_ref(&self) -> (r: &Str) ensures r@ == self@ { unimplemented!() }
}

/// `impl Into<String>` arguments
pub trait AsStr { spec fn sv(&self) -> Seq<char>; }
impl AsStr for Str { open spec fn sv(&self) -> Seq<char> { self@ } }
impl AsStr for &Str { open spec fn sv(&self) -> Seq<char> { (*self)@ } }
impl AsStr for Addr { open spec fn sv(&self) -> Seq<char> { self@ } }
impl AsStr for &Addr { open spec fn sv(&self) -> Seq<char> { (*self)@ } }

// ---------------------------------------------------------------- errors (dependency types)
pub struct StdError { pub tag: Ghost<int> }
pub enum OverflowOperation { Add, Sub, Mul, Pow, Shr, Shl }
pub struct OverflowError { pub operation: OverflowOperation }
pub struct DivideByZeroError { pub tag: Ghost<int> }
pub struct CheckedMultiplyRatioError { pub tag: Ghost<int> }
pub struct CheckedMultiplyFractionError { pub tag: Ghost<int> }
pub struct CheckedFromRatioError { pub tag: Ghost<int> }
pub struct ConversionOverflowError { pub tag: Ghost<int> }
pub struct DivisionError { pub tag: Ghost<int> }
pub struct Decimal256RangeExceeded { pub tag: Ghost<int> }
pub struct DecimalRangeExceeded { pub tag: Ghost<int> }
pub struct Instantiate2AddressError { pub tag: Ghost<int> }
pub type StdResult<T> = Result<T, StdError>;
pub enum PaymentError { MissingDenom, ExtraDenom, MultipleDenoms, NoFunds, NonPayable }
pub enum OwnershipError { Std, NoOwner, NotOwner, NotPendingOwner, TransferNotFound, TransferExpired }

impl StdError {
    #[verifier::external_body]
    pub fn generic_err(msg: Str) -> (r: StdError) { unimplemented!() }
    #[verifier::external_body]
    pub fn overflow(e: OverflowError) -> (r: StdError) { unimplemented!() }
}

#[allow(unused_macros)]
macro_rules! std_error_from {
    ($($t:ty),*) => { $( verus!{
        impl From<$t> for StdError {
            #[verifier::external_body]
            fn from(e: $t) -> (r: StdError) { unimplemented!() }
        }
        impl FromSpecImpl<$t> for StdError {
            open spec fn obeys_from_spec() -> bool { false }
            uninterp spec fn from_spec(e: $t) -> StdError;
        }
    } )* }
}

} // verus!
std_error_from!(OverflowError, DivideByZeroError, CheckedMultiplyRatioError, CheckedMultiplyFractionError, CheckedFromRatioError, ConversionOverflowError, Decimal256RangeExceeded, DecimalRangeExceeded);
verus! {
// ---------------------------------------------------------------- native u64 +/- (R11c)
/// `a + b` / `a - b` on u64 panic on overflow (overflow-checks = true in the release profile): partial-correctness contract
#[verifier::external_body]
pub fn add_u64_(a: u64, b: u64) -> (r: u64) ensures a + b <= 0xffff_ffff_ffff_ffff, r == a + b { unimplemented!() }
#[verifier::external_body]
pub fn sub_u64_(a: u64, b: u64) -> (r: u64) ensures a >= b, r == a - b { unimplemented!() }

// ---------------------------------------------------------------- unwrap (R11: `.unwrap()` -> `.unwrap_()`)
/// `Option::unwrap` / `Result::unwrap` panic (abort the transaction) on None / Err: partial-correctness contract
pub trait UnwrapExt<T>: Sized { fn unwrap_(self) -> T; }
impl<T> UnwrapExt<T> for Option<T> {
    #[verifier::external_body]
    fn unwrap_(self) -> (r: T) ensures self == Some(r) { unimplemented!() }
}
impl<T, E> UnwrapExt<T> for Result<T, E> {
    #[verifier::external_body]
    fn unwrap_(self) -> (r: T) ensures self is Ok, self->Ok_0 == r { unimplemented!() }
}

pub trait UnwrapErrExt<E>: Sized { fn unwrap_err_(self) -> E; }
impl<T, E> UnwrapErrExt<E> for Result<T, E> {
    #[verifier::external_body]
    fn unwrap_err_(self) -> (r: E) ensures self is Err, self->Err_0 == r { unimplemented!() }
}
pub trait UnwrapOrDefaultExt<T>: Sized { fn unwrap_or_default_(self) -> T; }
impl<E> UnwrapOrDefaultExt<Uint128> for Result<Uint128, E> {
    #[verifier::external_body]
    fn unwrap_or_default_(self) -> (r: Uint128) ensures match self { Ok(v) => r == v, Err(_) => r@ == 0 } { unimplemented!() }
}
impl UnwrapOrDefaultExt<Uint128> for Option<Uint128> {
    #[verifier::external_body]
    fn unwrap_or_default_(self) -> (r: Uint128) ensures match self { Some(v) => r == v, None => r@ == 0 } { unimplemented!() }
}
impl UnwrapOrDefaultExt<usize> for Option<usize> {
    #[verifier::external_body]
    fn unwrap_or_default_(self) -> (r: usize) ensures match self { Some(v) => r == v, None => r == 0 } { unimplemented!() }
}
impl UnwrapOrDefaultExt<u64> for Option<u64> {
    #[verifier::external_body]
    fn unwrap_or_default_(self) -> (r: u64) ensures match self { Some(v) => r == v, None => r == 0 } { unimplemented!() }
}

// ---------------------------------------------------------------- to_string (R4: `.to_string()` -> `.to_str_()`)
pub trait ToStr_ { fn to_str_(&self) -> Str; }
impl ToStr_ for Str { fn to_str_(&self) -> (r: Str) ensures r == *self { self.clone() } }
impl ToStr_ for Addr { #[verifier::external_body] fn to_str_(&self) -> (r: Str) ensures r@ == self@ { unimplemented!() } }
impl ToStr_ for u64 { #[verifier::external_body] fn to_str_(&self) -> (r: Str) ensures r@ == u64_str(*self) { unimplemented!() } }
impl ToStr_ for u32 { #[verifier::external_body] fn to_str_(&self) -> (r: Str) { unimplemented!() } }
impl ToStr_ for u8 { #[verifier::external_body] fn to_str_(&self) -> (r: Str) { unimplemented!() } }
impl ToStr_ for usize { #[verifier::external_body] fn to_str_(&self) -> (r: Str) { unimplemented!() } }
impl ToStr_ for OverflowError { #[verifier::external_body] fn to_str_(&self) -> (r: Str) { unimplemented!() } }
impl ToStr_ for CheckedMultiplyRatioError { #[verifier::external_body] fn to_str_(&self) -> (r: Str) { unimplemented!() } }
impl ToStr_ for DivideByZeroError { #[verifier::external_body] fn to_str_(&self) -> (r: Str) { unimplemented!() } }
impl ToStr_ for CheckedMultiplyFractionError { #[verifier::external_body] fn to_str_(&self) -> (r: Str) { unimplemented!() } }
impl ToStr_ for CheckedFromRatioError { #[verifier::external_body] fn to_str_(&self) -> (r: Str) { unimplemented!() } }
impl ToStr_ for ConversionOverflowError { #[verifier::external_body] fn to_str_(&self) -> (r: Str) { unimplemented!() } }
impl ToStr_ for DivisionError { #[verifier::external_body] fn to_str_(&self) -> (r: Str) { unimplemented!() } }
impl ToStr_ for bool { #[verifier::external_body] fn to_str_(&self) -> (r: Str) { unimplemented!() } }
impl ToStr_ for Uint64 { #[verifier::external_body] fn to_str_(&self) -> (r: Str) { unimplemented!() } }
impl ToStr_ for Uint128 { #[verifier::external_body] fn to_str_(&self) -> (r: Str) { unimplemented!() } }
/// decimal rendering of a u64 (injective; the digits themselves are not modelled)
pub uninterp spec fn u64_str(n: u64) -> Seq<char>;
pub broadcast axiom fn u64_str_injective(a: u64, b: u64)
    ensures #[trigger] u64_str(a) == #[trigger] u64_str(b) ==> a == b;

// ---------------------------------------------------------------- Timestamp (nanoseconds, u64)
#[derive(Copy)]
pub struct Timestamp { pub nanos: u64 }
impl View for Timestamp { type V = nat; open spec fn view(&self) -> nat { self.nanos as nat } }
impl Timestamp {
    /// real code: `Timestamp(Uint64::new(s * 1_000_000_000))`; with overflow-checks = true a
    /// product above u64::MAX panics (transaction aborts) -> result unspecified in that case.
    #[verifier::external_body]
    pub fn from_seconds(s: u64) -> (r: Timestamp)
        ensures (s as nat) * 1_000_000_000 <= U64_MAX, r.nanos as nat == (s as nat) * 1_000_000_000
    { unimplemented!() }
    pub fn seconds(&self) -> (r: u64) ensures r == self.nanos / 1_000_000_000 { self.nanos / 1_000_000_000 }
    pub fn nanos(&self) -> (r: u64) ensures r == self.nanos { self.nanos }
    #[verifier::external_body]
    pub fn plus_seconds(&self, s: u64) -> (r: Timestamp)
        ensures (self.nanos as nat) + (s as nat) * 1_000_000_000 <= U64_MAX, r.nanos as nat == (self.nanos as nat) + (s as nat) * 1_000_000_000
    { unimplemented!() }
    #[verifier::external_body]
    pub fn minus_seconds(&self, s: u64) -> (r: Timestamp)
        ensures (s as nat) * 1_000_000_000 <= self.nanos as nat, r.nanos as nat == (self.nanos as nat) - (s as nat) * 1_000_000_000
    { unimplemented!() }

}

} // verus!

// `Result::unwrap` needs `E: Debug` (text never inspected)
macro_rules! debug_impl { ($($t:ty),*) => { $( impl core::fmt::Debug for $t { fn fmt(&self, _f: &mut core::fmt::Formatter<'_>) -> core::fmt::Result { Ok(()) } } )* } }
debug_impl!(StdError, OverflowError, DivideByZeroError, CheckedMultiplyRatioError, CheckedMultiplyFractionError, CheckedFromRatioError,
    ConversionOverflowError, DivisionError, Decimal256RangeExceeded, DecimalRangeExceeded, Instantiate2AddressError, PaymentError, OwnershipError);
