// ===== shim/pm_misc.rs — TRUSTED: mantra-dex-std::common::validate_addr_or_default, arrays as iterables =====
verus! {
/// `validate_addr_or_default(deps, unvalidated, default)`: the given address if present and valid, else the default
#[verifier::external_body]
pub fn validate_addr_or_default(deps: &Deps, unvalidated: Option<Str>, default: Addr) -> (r: Addr)
    ensures r@ == (match unvalidated { Some(s) => if addr_valid(s@) { s@ } else { default@ }, None => default@ })
{ unimplemented!() }

/// mantra-dex-std `aggregate_coins`: sums coins of equal denom and sorts by denom (only used for reporting lists here)
#[verifier::external_body]
pub fn aggregate_coins(coins: Vec<Coin>) -> (r: Result<Vec<Coin>, StdError>)
{ unimplemented!() }

impl<T> IterExt<T> for [T; 2] {
    open spec fn elems(&self) -> Seq<T> { self@ }
    #[verifier::external_body]
    fn iter_position<F: Fn(&T) -> bool>(&self, f: F) -> (r: Option<usize>) { unimplemented!() }
    #[verifier::external_body]
    fn iter_any<F: Fn(&T) -> bool>(&self, f: F) -> (r: bool) { unimplemented!() }
    #[verifier::external_body]
    fn iter_all<F: Fn(&T) -> bool>(&self, f: F) -> (r: bool) { unimplemented!() }
}
} // verus!
