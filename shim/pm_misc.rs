// ===== shim/pm_misc.rs — TRUSTED: mantra-dex-std::common::validate_addr_or_default, arrays as iterables =====
verus! {
/// `validate_addr_or_default(deps, unvalidated, default)`: the given address if present and valid, else the default
#[verifier::external_body]
pub fn validate_addr_or_default(deps: &Deps, unvalidated: Option<Str>, default: Addr) -> (r: Addr)
    ensures r@ == (match unvalidated { Some(s) => if addr_valid(s@) { s@ } else { default@ }, None => default@ })
{ unimplemented!() }

// ---- token factory (mantra-dex-std::tokenfactory): the Any/Stargate encoding is replaced by a typed message (R14)
pub uninterp spec fn is_factory_token_spec(denom: Seq<char>) -> bool;
#[verifier::external_body]
pub fn is_factory_token(denom: &Str) -> (r: bool) ensures r == is_factory_token_spec(denom@) { unimplemented!() }
#[verifier::external_body]
pub fn mint(sender: Addr, coin: Coin, mint_to_address: Str) -> (r: CosmosMsg)
    ensures r == CosmosMsg::Tf(TfMsg::Mint { sender: sender.s, amount: coin, mint_to: mint_to_address })
{ unimplemented!() }
#[verifier::external_body]
pub fn burn(sender: Addr, coin: Coin, burn_from_address: Str) -> (r: CosmosMsg)
    ensures r == CosmosMsg::Tf(TfMsg::Burn { sender: sender.s, amount: coin, burn_from: burn_from_address })
{ unimplemented!() }
#[verifier::external_body]
pub fn create_denom(sender: Addr, subdenom: Str) -> (r: CosmosMsg)
    ensures r == CosmosMsg::Tf(TfMsg::CreateDenom { sender: sender.s, subdenom })
{ unimplemented!() }
/// token-factory params query: the denom creation fee (a list of coins)
#[verifier::external_body]
pub fn get_factory_denom_creation_fee(deps: Deps) -> (r: Result<Vec<Coin>, StdError>)
    ensures match r { Ok(v) => v@ == deps.querier.tf_fee@, Err(_) => true }
{ unimplemented!() }

// ---- `uint::U256` (mantra_dex_std::U256): only what provide_liquidity uses
pub struct U256 { pub hi: u128, pub lo: u128 }
impl View for U256 { type V = nat; open spec fn view(&self) -> nat { (self.hi as nat) * p128() + (self.lo as nat) } }
impl U256 {
    #[verifier::external_body]
    pub fn from(x: u128) -> (r: U256) ensures r@ == x as nat { unimplemented!() }
    #[verifier::external_body]
    pub fn checked_mul(self, o: U256) -> (r: Option<U256>)
        ensures match r { Some(x) => x@ == self@ * o@, None => self@ * o@ > u256_max() }
    { unimplemented!() }
    #[verifier::external_body]
    pub fn integer_sqrt(&self) -> (r: U256) ensures r@ * r@ <= self@, self@ < (r@ + 1) * (r@ + 1) { unimplemented!() }
    /// `as_u128` panics (aborts) if the value does not fit
    #[verifier::external_body]
    pub fn as_u128(&self) -> (r: u128) ensures self@ <= U128_MAX, r as nat == self@ { unimplemented!() }
}

/// `std::cmp::max` (R5)
#[verifier::external_body]
pub fn cmp_max(a: Uint128, b: Uint128) -> (r: Uint128) ensures r@ == (if a@ >= b@ { a@ } else { b@ }), r == a || r == b { unimplemented!() }
/// `std::cmp::min` (R5)
#[verifier::external_body]
pub fn cmp_min(a: Uint128, b: Uint128) -> (r: Uint128) ensures r@ == (if a@ <= b@ { a@ } else { b@ }), r == a || r == b { unimplemented!() }

impl<T> IterExt<T> for [T; 2] {
    open spec fn elems(&self) -> Seq<T> { self@ }
    #[verifier::external_body]
    fn iter_position<F: Fn(&T) -> bool>(&self, f: F) -> (r: Option<usize>) { unimplemented!() }
    #[verifier::external_body]
    fn iter_any<F: Fn(&T) -> bool>(&self, f: F) -> (r: bool) { unimplemented!() }
    #[verifier::external_body]
    fn iter_find<F: Fn(&T) -> bool>(&self, f: F) -> (r: Option<&T>) { unimplemented!() }
    #[verifier::external_body]
    fn iter_all<F: Fn(&T) -> bool>(&self, f: F) -> (r: bool) { unimplemented!() }
}
} // verus!
