// ===== shim/fc_storage.rs — TRUSTED ghost model of the fee-collector's storage (only the cw-ownable item) =====
verus! {
pub struct Storage {
    pub owner: Ghost<Option<Seq<char>>>,
    pub pending_owner: Ghost<Option<Seq<char>>>,
    pub pending_expiry: Ghost<Option<cw_ownable::Expiration>>,
}
#[derive(Copy, Clone)]
pub struct Querier { pub tag: Ghost<int> }
pub struct WasmMsg { pub tag: Ghost<int> }
} // verus!
