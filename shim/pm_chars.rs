// ===== shim/pm_chars.rs — TRUSTED: character scan of a string (`s.chars().all(f)`, rule R5) and the ASCII class test =====
verus! {
/// `char::is_ascii_alphanumeric`: the class itself is left uninterpreted (only "same predicate everywhere" is used)
pub uninterp spec fn ascii_alnum(c: char) -> bool;
pub assume_specification [ char::is_ascii_alphanumeric ] (c: &char) -> (r: bool)
    ensures r == ascii_alnum(*c);

impl Str {
    /// `.chars().all(f)` (R5: `.chars().all(` -> `.chars_all(`): true iff f holds on every character of the string
    #[verifier::external_body]
    pub fn chars_all<F: Fn(char) -> bool>(&self, f: F) -> (r: bool)
        requires forall|i: int| 0 <= i < self@.len() ==> call_requires(f, (#[trigger] self@[i],)),
        ensures r ==> forall|j: int| 0 <= j < self@.len() ==> call_ensures(f, (#[trigger] self@[j],), true),
            !r ==> exists|k: int| 0 <= k < self@.len() && call_ensures(f, (#[trigger] self@[k],), false),
    { unimplemented!() }
}
} // verus!
verus! {
/// the characters `validate_pool_identifier` lets through: ASCII letters and digits, '/', '.'
pub open spec fn allowed_identifier_char(c: char) -> bool { ascii_alnum(c) || c == '/' || c == '.' }
} // verus!
