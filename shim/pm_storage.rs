// ===== shim/pm_storage.rs — TRUSTED ghost model of the pool-manager's storage, querier and wasm messages =====
// state.rs: CONFIG: Item<Config>, POOL_COUNTER: Item<u64>, POOLS: IndexedMap<&str, PoolInfo, {unique lp_denom}>,
// SINGLE_SIDE_LIQUIDITY_PROVISION_BUFFER: Item<..>; cw-ownable `ownership` item.
verus! {
pub struct Storage {
    pub config: Ghost<Option<Config>>,
    pub pool_counter: Ghost<Option<u64>>,
    pub pools: Ghost<Map<Seq<char>, PoolInfo>>,
    pub ssl_buffer: Ghost<Option<SingleSideLiquidityProvisionBuffer>>,
    pub owner: Ghost<Option<Seq<char>>>,
    pub pending_owner: Ghost<Option<Seq<char>>>,
    pub pending_expiry: Ghost<Option<cw_ownable::Expiration>>,
}

/// bank module view seen through `deps.querier`: balances and total supplies (absent = 0)
#[derive(Copy, Clone)]
pub struct Querier {
    pub bank: Ghost<Map<(Seq<char>, Seq<char>), nat>>,
    pub supply: Ghost<Map<Seq<char>, nat>>,
    pub tf_fee: Ghost<Seq<Coin>>,
}
pub open spec fn bank_balance(q: Querier, addr: Seq<char>, denom: Seq<char>) -> nat {
    if q.bank@.dom().contains((addr, denom)) { q.bank@[(addr, denom)] } else { 0 }
}
pub open spec fn bank_supply(q: Querier, denom: Seq<char>) -> nat {
    if q.supply@.dom().contains(denom) { q.supply@[denom] } else { 0 }
}

impl Querier {
    #[verifier::external_body]
    pub fn query_balance<A: AsStr, D: AsStr>(&self, addr: A, denom: D) -> (r: Result<Coin, StdError>)
        ensures match r { Ok(c) => c.denom@ == denom.sv() && c.amount@ == bank_balance(*self, addr.sv(), denom.sv()), Err(_) => true }
    { unimplemented!() }
    #[verifier::external_body]
    pub fn query_supply<D: AsStr>(&self, denom: D) -> (r: Result<Coin, StdError>)
        ensures match r { Ok(c) => c.denom@ == denom.sv() && c.amount@ == bank_supply(*self, denom.sv()), Err(_) => true }
    { unimplemented!() }
    /// cross-contract smart query: the answer is unconstrained (another contract's state); `wasm_answered` only records
    /// that a value was really returned by this querier (so contracts can say "the farm manager reported ...")
    #[verifier::external_body]
    pub fn query_wasm_smart<T, A: AsStr, M>(&self, addr: A, msg: &M) -> (r: Result<T, StdError>)
        ensures r is Ok ==> wasm_answered(*self, addr.sv(), r->Ok_0),
    { unimplemented!() }
}

pub uninterp spec fn wasm_answered<T>(q: Querier, addr: Seq<char>, x: T) -> bool;

// ---- Items
pub struct ConfigItem {}
pub const CONFIG: ConfigItem = ConfigItem {};
impl ConfigItem {
    #[verifier::external_body]
    pub fn load(&self, s: &Storage) -> (r: Result<Config, StdError>)
        ensures match r { Ok(c) => s.config@ == Some(c), Err(_) => s.config@ is None }
    { unimplemented!() }
    #[verifier::external_body]
    pub fn save(&self, s: &mut Storage, v: &Config) -> (r: Result<(), StdError>)
        ensures r is Ok, *final(s) == (Storage { config: Ghost(Some(*v)), ..*old(s) })
    { unimplemented!() }
}
pub struct PoolCounterItem {}
pub const POOL_COUNTER: PoolCounterItem = PoolCounterItem {};
impl PoolCounterItem {
    #[verifier::external_body]
    pub fn save(&self, s: &mut Storage, v: &u64) -> (r: Result<(), StdError>)
        ensures r is Ok, *final(s) == (Storage { pool_counter: Ghost(Some(*v)), ..*old(s) })
    { unimplemented!() }
    /// `Item::update`: load, apply the closure, save the result; Err (nothing saved) if the key is absent or the closure fails
    #[verifier::external_body]
    pub fn update<F: FnOnce(u64) -> Result<u64, ContractError>>(&self, s: &mut Storage, f: F) -> (r: Result<u64, ContractError>)
        ensures match r {
            // a closure that would panic (e.g. `counter += 1` at u64::MAX) aborts the transaction: partial correctness
            Ok(v) => old(s).pool_counter@ is Some && call_requires(f, (old(s).pool_counter@->Some_0,)) && call_ensures(f, (old(s).pool_counter@->Some_0,), Ok(v))
                && *final(s) == (Storage { pool_counter: Ghost(Some(v)), ..*old(s) }),
            Err(_) => *final(s) == *old(s),
        }
    { unimplemented!() }
}
pub struct SslBufferItem {}
pub const SINGLE_SIDE_LIQUIDITY_PROVISION_BUFFER: SslBufferItem = SslBufferItem {};
impl SslBufferItem {
    #[verifier::external_body]
    pub fn load(&self, s: &Storage) -> (r: Result<SingleSideLiquidityProvisionBuffer, StdError>)
        ensures match r { Ok(c) => s.ssl_buffer@ == Some(c), Err(_) => s.ssl_buffer@ is None }
    { unimplemented!() }
    #[verifier::external_body]
    pub fn may_load(&self, s: &Storage) -> (r: Result<Option<SingleSideLiquidityProvisionBuffer>, StdError>)
        ensures match r { Ok(c) => s.ssl_buffer@ == c, Err(_) => true }
    { unimplemented!() }
    #[verifier::external_body]
    pub fn save(&self, s: &mut Storage, v: &SingleSideLiquidityProvisionBuffer) -> (r: Result<(), StdError>)
        ensures r is Ok, *final(s) == (Storage { ssl_buffer: Ghost(Some(*v)), ..*old(s) })
    { unimplemented!() }
    #[verifier::external_body]
    pub fn remove(&self, s: &mut Storage)
        ensures *final(s) == (Storage { ssl_buffer: Ghost(None), ..*old(s) })
    { unimplemented!() }
}
/// POOLS: IndexedMap keyed by pool identifier with a unique index on lp_denom
pub struct PoolsMap {}
pub const POOLS: PoolsMap = PoolsMap {};
impl PoolsMap {
    #[verifier::external_body]
    pub fn may_load(&self, s: &Storage, k: &Str) -> (r: Result<Option<PoolInfo>, StdError>)
        ensures match r {
            Ok(Some(p)) => s.pools@.dom().contains(k@) && s.pools@[k@] == p,
            Ok(None) => !s.pools@.dom().contains(k@),
            // records are only ever written by `save` with this type, so deserialization cannot fail
            Err(_) => false,
        }
    { unimplemented!() }
    #[verifier::external_body]
    pub fn load(&self, s: &Storage, k: &Str) -> (r: Result<PoolInfo, StdError>)
        ensures match r {
            Ok(p) => s.pools@.dom().contains(k@) && s.pools@[k@] == p,
            Err(_) => true,
        }
    { unimplemented!() }
    /// `IndexedMap::save`: replaces the record under `k`; the unique lp_denom index rejects a second key with the same lp_denom
    #[verifier::external_body]
    pub fn save(&self, s: &mut Storage, k: &Str, v: &PoolInfo) -> (r: Result<(), StdError>)
        ensures match r {
            Ok(_) => *final(s) == (Storage { pools: Ghost(old(s).pools@.insert(k@, *v)), ..*old(s) })
                && (forall|o: Seq<char>| #![auto] old(s).pools@.dom().contains(o) && o != k@ ==> old(s).pools@[o].lp_denom@ != v.lp_denom@),
            Err(_) => true,
        }
    { unimplemented!() }
}

// ---- wasm messages (typed payload instead of JSON bytes, R14)
pub enum WasmPayload { Pm(ExecuteMsg), Fm(FmExecuteMsg) }
pub struct WasmMsg { pub contract_addr: Str, pub payload: WasmPayload, pub funds: Vec<Coin> }
pub trait IntoPayload { spec fn payload(&self) -> WasmPayload; }
impl IntoPayload for ExecuteMsg { open spec fn payload(&self) -> WasmPayload { WasmPayload::Pm(*self) } }
impl IntoPayload for FmExecuteMsg { open spec fn payload(&self) -> WasmPayload { WasmPayload::Fm(*self) } }
#[verifier::external_body]
pub fn wasm_execute<A: AsStr, M: IntoPayload>(addr: A, msg: &M, funds: Vec<Coin>) -> (r: Result<WasmMsg, StdError>)
    ensures match r {
        Ok(m) => m.contract_addr@ == addr.sv() && m.payload == msg.payload() && m.funds@ == funds@,
        Err(_) => true,
    }
{ unimplemented!() }
} // verus!
