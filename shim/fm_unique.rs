// ===== shim/fm_unique.rs — spec vocabulary for `get_unique_lp_asset_denoms_from_positions` (no exec code, nothing trusted) =====
// The two membership facts are wrapped in spec functions so that each clause has a ground trigger: stated with a bare
// `forall i ==> exists k` they can neither be proved as a postcondition (the skolem term only occurs under the inner binder)
// nor used without a matching loop between the two directions.
verus! {
/// `d` is the LP denom of one of the positions
pub open spec fn denom_of_some_position(ps: Seq<Position>, d: Seq<char>) -> bool {
    exists|k: int| 0 <= k < ps.len() && (#[trigger] ps[k]).lp_asset.denom@ == d
}
/// `d` occurs in the list
pub open spec fn denom_listed(v: Seq<Str>, d: Seq<char>) -> bool {
    exists|i: int| 0 <= i < v.len() && (#[trigger] v[i])@ == d
}
} // verus!
