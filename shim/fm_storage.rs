// ===== shim/fm_storage.rs — TRUSTED ghost model of the farm-manager's storage, querier and range getters =====
// state.rs: CONFIG, POSITION_ID_COUNTER, POSITIONS (IndexedMap by identifier; multi-indexes by receiver / open state),
// LAST_CLAIMED_EPOCH: Map<&Addr, EpochId>, LP_WEIGHT_HISTORY: Map<(&Addr, &str, EpochId), Uint128>,
// FARM_COUNTER, FARMS (IndexedMap by identifier; multi-indexes by lp_denom / farm asset); cw-ownable item.
verus! {
pub struct Storage {
    pub config: Ghost<Option<Config>>,
    pub position_counter: Ghost<Option<u64>>,
    pub positions: Ghost<Map<Seq<char>, Position>>,
    pub last_claimed: Ghost<Map<Seq<char>, u64>>,
    pub weights: Ghost<Map<(Seq<char>, Seq<char>, u64), Uint128>>,
    pub farm_counter: Ghost<Option<u64>>,
    pub farms: Ghost<Map<Seq<char>, Farm>>,
    pub owner: Ghost<Option<Seq<char>>>,
    pub pending_owner: Ghost<Option<Seq<char>>>,
    pub pending_expiry: Ghost<Option<cw_ownable::Expiration>>,
}

/// what the farm manager sees of the other contracts through `deps.querier`: the epoch manager's answers
#[derive(Copy, Clone)]
pub struct Querier { pub current_epoch: Ghost<Option<Epoch>>, pub tag: Ghost<int> }
/// start time (nanoseconds) the epoch manager reports for an epoch id (unit em proves: genesis + id * duration)
pub uninterp spec fn em_epoch_start_nanos(q: Querier, id: u64) -> Option<u64>;
impl Querier {
    /// `query_wasm_smart(epoch_manager, &QueryMsg::Epoch { id })`
    #[verifier::external_body]
    pub fn query_wasm_smart<A: AsStr>(&self, addr: A, msg: &QueryMsg) -> (r: Result<EpochResponse, StdError>)
        ensures match r {
            Ok(e) => (match *msg {
                QueryMsg::Epoch { id } => em_epoch_start_nanos(*self, id) == Some(e.epoch.start_time.nanos) && e.epoch.id == id,
                QueryMsg::CurrentEpoch {} => self.current_epoch@ == Some(e.epoch),
                _ => true,
            }),
            Err(_) => true,
        }
    { unimplemented!() }
}
/// mantra-dex-std `epoch_manager::get_current_epoch`
#[verifier::external_body]
pub fn get_current_epoch(deps: Deps, epoch_manager_addr: Str) -> (r: Result<Epoch, StdError>)
    ensures match r { Ok(e) => deps.querier.current_epoch@ == Some(e), Err(_) => true }
{ unimplemented!() }

pub struct WasmMsg { pub tag: Ghost<int> }

// ---- Items
pub struct ConfigItem {}
pub const CONFIG: ConfigItem = ConfigItem {};
impl ConfigItem {
    #[verifier::external_body]
    pub fn load(&self, s: &Storage) -> (r: Result<Config, StdError>)
        ensures match r { Ok(c) => s.config@ == Some(c), Err(_) => s.config@ is None }
    { unimplemented!() }
    #[verifier::external_body]
    pub fn save(&self, s: &mut Storage, v: &Config) -> (r: Result<(), StdError>)
        ensures r is Ok, *final(s) == (Storage { config: Ghost(Some(*v)), ..*old(s) })
    { unimplemented!() }
}
pub struct PositionCounterItem {}
pub const POSITION_ID_COUNTER: PositionCounterItem = PositionCounterItem {};
impl PositionCounterItem {
    #[verifier::external_body]
    pub fn may_load(&self, s: &Storage) -> (r: Result<Option<u64>, StdError>)
        ensures r == Ok::<Option<u64>, StdError>(s.position_counter@)
    { unimplemented!() }
    #[verifier::external_body]
    pub fn save(&self, s: &mut Storage, v: &u64) -> (r: Result<(), StdError>)
        ensures r is Ok, *final(s) == (Storage { position_counter: Ghost(Some(*v)), ..*old(s) })
    { unimplemented!() }
}
pub struct FarmCounterItem {}
pub const FARM_COUNTER: FarmCounterItem = FarmCounterItem {};
impl FarmCounterItem {
    #[verifier::external_body]
    pub fn save(&self, s: &mut Storage, v: &u64) -> (r: Result<(), StdError>)
        ensures r is Ok, *final(s) == (Storage { farm_counter: Ghost(Some(*v)), ..*old(s) })
    { unimplemented!() }
    /// `Item::update::<_, StdError>`: load, apply, save; a panicking closure aborts (partial correctness)
    #[verifier::external_body]
    pub fn update<F: FnOnce(u64) -> Result<u64, StdError>>(&self, s: &mut Storage, f: F) -> (r: Result<u64, StdError>)
        ensures match r {
            Ok(v) => old(s).farm_counter@ is Some && call_requires(f, (old(s).farm_counter@->Some_0,)) && call_ensures(f, (old(s).farm_counter@->Some_0,), Ok(v))
                && *final(s) == (Storage { farm_counter: Ghost(Some(v)), ..*old(s) }),
            Err(_) => *final(s) == *old(s),
        }
    { unimplemented!() }
}

// ---- POSITIONS
pub struct PositionsMap {}
pub const POSITIONS: PositionsMap = PositionsMap {};
impl PositionsMap {
    #[verifier::external_body]
    pub fn may_load(&self, s: &Storage, k: &Str) -> (r: Result<Option<Position>, StdError>)
        ensures match r {
            Ok(Some(p)) => s.positions@.dom().contains(k@) && s.positions@[k@] == p,
            Ok(None) => !s.positions@.dom().contains(k@),
            Err(_) => false,
        }
    { unimplemented!() }
    #[verifier::external_body]
    pub fn save(&self, s: &mut Storage, k: &Str, v: &Position) -> (r: Result<(), StdError>)
        ensures r is Ok, *final(s) == (Storage { positions: Ghost(old(s).positions@.insert(k@, *v)), ..*old(s) })
    { unimplemented!() }
    #[verifier::external_body]
    pub fn remove(&self, s: &mut Storage, k: &Str) -> (r: Result<(), StdError>)
        ensures r is Ok, *final(s) == (Storage { positions: Ghost(old(s).positions@.remove(k@)), ..*old(s) })
    { unimplemented!() }
}
/// `get_positions_by_receiver(storage, receiver, Some(open_state), None, Some(limit))`: the receiver's positions in that state,
/// each exactly as stored, no duplicates, ALL of them when there are at most `limit` (state.rs; wraps a prefix range)
pub open spec fn is_position_of(s: Storage, receiver: Seq<char>, open_state: Option<bool>, id: Seq<char>) -> bool {
    s.positions@.dom().contains(id) && s.positions@[id].receiver@ == receiver
    && (open_state is Some ==> s.positions@[id].open == open_state->Some_0)
}
#[verifier::external_body]
pub fn get_positions_by_receiver(s: &Storage, receiver: &Str, open_state: Option<bool>, start_after: Option<Str>, limit: Option<u32>) -> (r: Result<Vec<Position>, StdError>)
    ensures match r {
        Ok(v) => (forall|i: int| 0 <= i < v@.len() ==> is_position_of(*s, receiver@, open_state, (#[trigger] v@[i]).identifier@) && s.positions@[v@[i].identifier@] == v@[i])
            && (forall|i: int, j: int| 0 <= i < j < v@.len() ==> (#[trigger] v@[i]).identifier@ != (#[trigger] v@[j]).identifier@)
            && v@.len() <= 10 && (limit is Some ==> v@.len() <= limit->Some_0)
            && (start_after is None && v@.len() < 10 && (limit is Some ==> v@.len() < limit->Some_0) ==>
                forall|id: Seq<char>| is_position_of(*s, receiver@, open_state, id) ==> exists|i: int| 0 <= i < v@.len() && (#[trigger] v@[i]).identifier@ == id),
        Err(_) => true,
    }
{ unimplemented!() }
#[verifier::external_body]
pub fn get_position(s: &Storage, identifier: Option<Str>) -> (r: Result<Option<Position>, StdError>)
    ensures match r {
        Ok(Some(p)) => identifier is Some && s.positions@.dom().contains(identifier->Some_0@) && s.positions@[identifier->Some_0@] == p,
        Ok(None) => identifier is None || !s.positions@.dom().contains(identifier->Some_0@),
        Err(_) => false,
    }
{ unimplemented!() }

// ---- LAST_CLAIMED_EPOCH
pub struct LastClaimedMap {}
pub const LAST_CLAIMED_EPOCH: LastClaimedMap = LastClaimedMap {};
impl LastClaimedMap {
    #[verifier::external_body]
    pub fn may_load(&self, s: &Storage, k: &Addr) -> (r: Result<Option<u64>, StdError>)
        ensures match r {
            Ok(Some(e)) => s.last_claimed@.dom().contains(k@) && s.last_claimed@[k@] == e,
            Ok(None) => !s.last_claimed@.dom().contains(k@),
            Err(_) => false,
        }
    { unimplemented!() }
    #[verifier::external_body]
    pub fn save(&self, s: &mut Storage, k: &Addr, v: &u64) -> (r: Result<(), StdError>)
        ensures r is Ok, *final(s) == (Storage { last_claimed: Ghost(old(s).last_claimed@.insert(k@, *v)), ..*old(s) })
    { unimplemented!() }
    #[verifier::external_body]
    pub fn remove(&self, s: &mut Storage, k: &Addr)
        ensures *final(s) == (Storage { last_claimed: Ghost(old(s).last_claimed@.remove(k@)), ..*old(s) })
    { unimplemented!() }
}

// ---- LP_WEIGHT_HISTORY
pub struct WeightHistoryMap {}
pub const LP_WEIGHT_HISTORY: WeightHistoryMap = WeightHistoryMap {};
impl WeightHistoryMap {
    #[verifier::external_body]
    pub fn may_load(&self, s: &Storage, k: (&Addr, &Str, u64)) -> (r: Result<Option<Uint128>, StdError>)
        ensures match r {
            Ok(Some(w)) => s.weights@.dom().contains((k.0@, k.1@, k.2)) && s.weights@[(k.0@, k.1@, k.2)] == w,
            Ok(None) => !s.weights@.dom().contains((k.0@, k.1@, k.2)),
            Err(_) => false,
        }
    { unimplemented!() }
    #[verifier::external_body]
    pub fn save(&self, s: &mut Storage, k: (&Addr, &Str, u64), v: &Uint128) -> (r: Result<(), StdError>)
        ensures r is Ok, *final(s) == (Storage { weights: Ghost(old(s).weights@.insert((k.0@, k.1@, k.2), *v)), ..*old(s) })
    { unimplemented!() }
    #[verifier::external_body]
    pub fn remove(&self, s: &mut Storage, k: (&Addr, &Str, u64))
        ensures *final(s) == (Storage { weights: Ghost(old(s).weights@.remove((k.0@, k.1@, k.2))), ..*old(s) })
    { unimplemented!() }
}
pub open spec fn has_weight(s: Storage, a: Seq<char>, lp: Seq<char>, e: u64) -> bool { s.weights@.dom().contains((a, lp, e)) }
/// (definition) keys of other (address, lp) pairs are untouched
pub open spec fn other_weights_same(s0: Storage, s1: Storage, a: Seq<char>, lp: Seq<char>) -> bool {
    forall|k: (Seq<char>, Seq<char>, u64)| (k.0 != a || k.1 != lp) ==> (#[trigger] s1.weights@.dom().contains(k) == s0.weights@.dom().contains(k))
        && (s0.weights@.dom().contains(k) ==> s1.weights@[k] == s0.weights@[k])
}
/// state.rs range getters over LP_WEIGHT_HISTORY.prefix((addr, lp)) (ascending / descending, first item)
#[verifier::external_body]
pub fn get_earliest_address_lp_weight(s: &Storage, address: &Addr, lp_denom: &Str) -> (r: Result<(u64, Uint128), ContractError>)
    ensures match r {
        Ok(x) => has_weight(*s, address@, lp_denom@, x.0) && s.weights@[(address@, lp_denom@, x.0)] == x.1
            && forall|e: u64| has_weight(*s, address@, lp_denom@, e) ==> x.0 <= e,
        Err(_) => forall|e: u64| !has_weight(*s, address@, lp_denom@, e),
    }
{ unimplemented!() }
#[verifier::external_body]
pub fn get_latest_address_lp_weight(s: &Storage, address: &Addr, lp_denom: &Str, epoch_id: &u64) -> (r: Result<(u64, Uint128), ContractError>)
    ensures r is Ok,
        (exists|e: u64| has_weight(*s, address@, lp_denom@, e)) ==> has_weight(*s, address@, lp_denom@, r->Ok_0.0)
            && s.weights@[(address@, lp_denom@, r->Ok_0.0)] == r->Ok_0.1 && forall|e: u64| has_weight(*s, address@, lp_denom@, e) ==> e <= r->Ok_0.0,
        (forall|e: u64| !has_weight(*s, address@, lp_denom@, e)) ==> r->Ok_0.0 == *epoch_id && r->Ok_0.1@ == 0,
{ unimplemented!() }
/// state.rs `get_address_lp_weight_at_or_before`: descending prefix range bounded (inclusive) by `epoch_id`, first item
#[verifier::external_body]
pub fn get_address_lp_weight_at_or_before(s: &Storage, address: &Addr, lp_denom: &Str, epoch_id: &u64) -> (r: Result<Option<(u64, Uint128)>, ContractError>)
    ensures match r {
        Ok(Some(x)) => x.0 <= *epoch_id && has_weight(*s, address@, lp_denom@, x.0) && s.weights@[(address@, lp_denom@, x.0)] == x.1
            && forall|e: u64| has_weight(*s, address@, lp_denom@, e) && e <= *epoch_id ==> e <= x.0,
        Ok(None) => forall|e: u64| e <= *epoch_id ==> !has_weight(*s, address@, lp_denom@, e),
        Err(_) => true,
    }
{ unimplemented!() }
#[verifier::external_body]
pub fn has_any_lp_weight(s: &Storage, address: &Addr, lp_denom: &Str) -> (r: Result<bool, ContractError>)
    ensures r is Ok, r->Ok_0 == exists|e: u64| has_weight(*s, address@, lp_denom@, e),
{ unimplemented!() }

// ---- FARMS
pub struct FarmsMap {}
pub const FARMS: FarmsMap = FarmsMap {};
impl FarmsMap {
    #[verifier::external_body]
    pub fn may_load(&self, s: &Storage, k: &Str) -> (r: Result<Option<Farm>, StdError>)
        ensures match r {
            Ok(Some(p)) => s.farms@.dom().contains(k@) && s.farms@[k@] == p,
            Ok(None) => !s.farms@.dom().contains(k@),
            Err(_) => false,
        }
    { unimplemented!() }
    #[verifier::external_body]
    pub fn save(&self, s: &mut Storage, k: &Str, v: &Farm) -> (r: Result<(), StdError>)
        ensures r is Ok, *final(s) == (Storage { farms: Ghost(old(s).farms@.insert(k@, *v)), ..*old(s) })
    { unimplemented!() }
    #[verifier::external_body]
    pub fn remove(&self, s: &mut Storage, k: &Str) -> (r: Result<(), StdError>)
        ensures r is Ok, *final(s) == (Storage { farms: Ghost(old(s).farms@.remove(k@)), ..*old(s) })
    { unimplemented!() }
    /// `IndexedMap::update`: load (None if absent), apply, save the Ok result; Err leaves the store untouched
    #[verifier::external_body]
    pub fn update<F: FnOnce(Option<Farm>) -> Result<Farm, ContractError>>(&self, s: &mut Storage, k: &Str, f: F) -> (r: Result<Farm, ContractError>)
        ensures match r {
            Ok(v) => ({
                let arg = if old(s).farms@.dom().contains(k@) { Some(old(s).farms@[k@]) } else { None };
                call_requires(f, (arg,)) && call_ensures(f, (arg,), Ok(v))
                && *final(s) == (Storage { farms: Ghost(old(s).farms@.insert(k@, v)), ..*old(s) })
            }),
            Err(_) => *final(s) == *old(s),
        }
    { unimplemented!() }
}
/// `get_farms_by_lp_denom(storage, lp, None, Some(limit))`: farms of that LP token, each exactly as stored (and filed under its
/// own identifier), no duplicates, ALL of them when there are fewer than `limit`
pub open spec fn is_farm_of(s: Storage, lp: Seq<char>, id: Seq<char>) -> bool {
    s.farms@.dom().contains(id) && s.farms@[id].lp_denom@ == lp
}
/// the (key-ordered, paginated) answer of the FARMS lp_denom index is a function of the state
pub uninterp spec fn farms_by_lp_spec(s: Storage, lp: Seq<char>, start_after: Option<Str>, limit: Option<u32>) -> Seq<Farm>;
#[verifier::external_body]
pub fn get_farms_by_lp_denom(s: &Storage, lp_denom: &Str, start_after: Option<Str>, limit: Option<u32>) -> (r: Result<Vec<Farm>, StdError>)
    ensures match r {
        Ok(v) => v@ == farms_by_lp_spec(*s, lp_denom@, start_after, limit)
            && (forall|i: int| 0 <= i < v@.len() ==> is_farm_of(*s, lp_denom@, (#[trigger] v@[i]).identifier@) && s.farms@[v@[i].identifier@] == v@[i])
            && (forall|i: int, j: int| 0 <= i < j < v@.len() ==> (#[trigger] v@[i]).identifier@ != (#[trigger] v@[j]).identifier@)
            && v@.len() <= 100 && (limit is Some ==> v@.len() <= limit->Some_0) && (limit is None ==> v@.len() <= 10)
            && (start_after is None && limit is Some && v@.len() < limit->Some_0 && v@.len() < 100 ==>
                forall|id: Seq<char>| is_farm_of(*s, lp_denom@, id) ==> exists|i: int| 0 <= i < v@.len() && (#[trigger] v@[i]).identifier@ == id),
        Err(_) => true,
    }
{ unimplemented!() }
#[verifier::external_body]
pub fn get_farm_by_identifier(s: &Storage, farm_identifier: &Str) -> (r: Result<Farm, ContractError>)
    ensures match r {
        Ok(f) => s.farms@.dom().contains(farm_identifier@) && s.farms@[farm_identifier@] == f,
        Err(_) => !s.farms@.dom().contains(farm_identifier@),
    }
{ unimplemented!() }
} // verus!
