// ===== shim/em_storage.rs — TRUSTED ghost model of the epoch-manager's storage =====
// `CONFIG: Item<Config>` (state.rs) and the cw-ownable `ownership` item.
verus! {
pub struct Storage {
    pub config: Ghost<Option<Config>>,
    pub owner: Ghost<Option<Seq<char>>>,
    pub pending_owner: Ghost<Option<Seq<char>>>,
    pub pending_expiry: Ghost<Option<cw_ownable::Expiration>>,
}
#[derive(Copy, Clone)]
pub struct Querier { pub tag: Ghost<int> }
pub struct WasmMsg { pub tag: Ghost<int> }

pub struct ConfigItem {}
pub const CONFIG: ConfigItem = ConfigItem {};
impl ConfigItem {
    /// cw-storage-plus `Item::load`: Ok(v) iff the key holds v.
    #[verifier::external_body]
    pub fn load(&self, s: &Storage) -> (r: Result<Config, StdError>)
        ensures match r { Ok(c) => s.config@ == Some(c), Err(_) => s.config@ is None }
    { unimplemented!() }
    /// `Item::save`: writes the key; every other key is unchanged (frame).
    #[verifier::external_body]
    pub fn save(&self, s: &mut Storage, v: &Config) -> (r: Result<(), StdError>)
        ensures r is Ok, *final(s) == (Storage { config: Ghost(Some(*v)), ..*old(s) })
    { unimplemented!() }
}
} // verus!
