// ===== shim/coins.rs — TRUSTED: mantra-dex-std coin helpers (coin.rs): aggregate_coins, add_coins =====
verus! {
/// total amount of `denom` in a coin list
pub open spec fn coin_sum(cs: Seq<Coin>, denom: Seq<char>) -> nat
    decreases cs.len()
{
    if cs.len() == 0 { 0 } else { coin_sum(cs.drop_last(), denom) + (if cs.last().denom@ == denom { cs.last().amount@ } else { 0 }) }
}
pub open spec fn denoms_distinct(cs: Seq<Coin>) -> bool {
    forall|i: int, j: int| 0 <= i < j < cs.len() ==> #[trigger] cs[i].denom@ != #[trigger] cs[j].denom@
}
pub open spec fn has_denom(cs: Seq<Coin>, denom: Seq<char>) -> bool {
    exists|i: int| 0 <= i < cs.len() && #[trigger] cs[i].denom@ == denom
}
/// mantra-dex-std `aggregate_coins` (coin.rs): one coin per denom carrying the sum, sorted by denom; Err on u128 overflow
#[verifier::external_body]
pub fn aggregate_coins(coins: Vec<Coin>) -> (r: Result<Vec<Coin>, StdError>)
    ensures match r {
        Ok(v) => denoms_distinct(v@)
            && (forall|d: Seq<char>| #![trigger coin_sum(v@, d)] #![trigger coin_sum(coins@, d)] coin_sum(v@, d) == coin_sum(coins@, d))
            && (forall|i: int| 0 <= i < v@.len() ==> has_denom(coins@, #[trigger] v@[i].denom@))
            && (forall|k: int| 0 <= k < coins@.len() ==> has_denom(v@, #[trigger] coins@[k].denom@))
            && (coins@.len() > 0 ==> v@.len() > 0) && v@.len() <= coins@.len(),
        Err(_) => true,
    }
{ unimplemented!() }
/// mantra-dex-std `add_coins` (coin.rs): adds each coin of `to_add` to the coin of the same denom (Err if absent), then drops zero coins
#[verifier::external_body]
pub fn add_coins(coins: Vec<Coin>, to_add: Vec<Coin>) -> (r: Result<Vec<Coin>, StdError>)
    ensures match r {
        Ok(v) => (forall|d: Seq<char>| #[trigger] coin_sum(v@, d) == coin_sum(coins@, d) + coin_sum(to_add@, d)),
        Err(_) => true,
    }
{ unimplemented!() }

} // verus!
