// ===== shim/fm_query_shims.rs — TRUSTED: the unfiltered positions listing of state.rs (`get_positions`), used by unit fm_query only =====
verus! {
/// `get_positions(storage, start_after, limit)` (state.rs; ascending range over POSITIONS with a page limit): stored positions,
/// each exactly as stored, no duplicates
#[verifier::external_body]
pub fn get_positions(s: &Storage, start_after: Option<Str>, limit: Option<u32>) -> (r: Result<Vec<Position>, StdError>)
    ensures match r {
        Ok(v) => (forall|i: int| 0 <= i < v@.len() ==> s.positions@.dom().contains((#[trigger] v@[i]).identifier@) && s.positions@[v@[i].identifier@] == v@[i])
            && (forall|i: int, j: int| 0 <= i < j < v@.len() ==> (#[trigger] v@[i]).identifier@ != (#[trigger] v@[j]).identifier@),
        Err(_) => true,
    }
{ unimplemented!() }
} // verus!
