// ===== shim/fm_misc.rs — TRUSTED: small farm-manager dependencies (mantra-dex-std coin helpers) =====
verus! {
pub uninterp spec fn is_factory_token_spec(denom: Seq<char>) -> bool;
pub uninterp spec fn factory_token_creator_spec(denom: Seq<char>) -> Seq<char>;
#[verifier::external_body]
pub fn is_factory_token(denom: &Str) -> (r: bool) ensures r == is_factory_token_spec(denom@) { unimplemented!() }
#[verifier::external_body]
pub fn get_factory_token_creator(denom: &Str) -> (r: Result<Str, StdError>)
    ensures r is Ok ==> r->Ok_0@ == factory_token_creator_spec(denom@)
{ unimplemented!() }

// ---- `std::collections::HashMap` (R10): ghost map view; iteration order is arbitrary
pub trait KeyView { type KV; spec fn kv(&self) -> Self::KV; }
impl KeyView for u64 { type KV = u64; open spec fn kv(&self) -> u64 { *self } }
impl KeyView for Str { type KV = Seq<char>; open spec fn kv(&self) -> Seq<char> { self@ } }
pub struct HashMap<K: KeyView, V> { pub m: Ghost<Map<K::KV, V>> }
impl<K: KeyView, V> View for HashMap<K, V> { type V = Map<K::KV, V>; open spec fn view(&self) -> Map<K::KV, V> { self.m@ } }
impl<K: KeyView, V> HashMap<K, V> {
    #[verifier::external_body]
    pub fn new() -> (r: HashMap<K, V>) ensures r@ == Map::<K::KV, V>::empty() { unimplemented!() }
    #[verifier::external_body]
    pub fn insert(&mut self, k: K, v: V) -> (r: Option<V>) ensures final(self)@ == old(self)@.insert(k.kv(), v) { unimplemented!() }
    #[verifier::external_body]
    pub fn get(&self, k: &K) -> (r: Option<&V>)
        ensures match r { Some(v) => self@.dom().contains(k.kv()) && *v == self@[k.kv()], None => !self@.dom().contains(k.kv()) }
    { unimplemented!() }
    /// consuming iteration `for (k, v) in map` (R10): the entries in an arbitrary order, one per key
    #[verifier::external_body]
    pub fn into_entries_(self) -> (r: Vec<(K, V)>)
        ensures
            forall|i: int, j: int| 0 <= i < j < r@.len() ==> (#[trigger] r@[i]).0.kv() != (#[trigger] r@[j]).0.kv(),
            forall|i: int| 0 <= i < r@.len() ==> self@.dom().contains((#[trigger] r@[i]).0.kv()) && self@[r@[i].0.kv()] == r@[i].1,
            forall|k: K::KV| self@.dom().contains(k) ==> exists|i: int| 0 <= i < r@.len() && (#[trigger] r@[i]).0.kv() == k,
    { unimplemented!() }
    /// `map[&k]` (R10: `X[&E]` -> `*X.index_(&E)`): panics (aborts) when the key is absent
    #[verifier::external_body]
    pub fn index_(&self, k: &K) -> (r: &V) ensures self@.dom().contains(k.kv()), *r == self@[k.kv()] { unimplemented!() }
}

/// `vec.into_iter().collect::<HashSet<_>>().into_iter().collect::<Vec<_>>()` on addresses / strings: the distinct elements, arbitrary order
pub trait DedupExt<T> { fn dedup_hashset_(self) -> Vec<T>; }
impl DedupExt<Addr> for Vec<Addr> {
    #[verifier::external_body]
    fn dedup_hashset_(self) -> (r: Vec<Addr>)
        ensures
            forall|i: int, j: int| 0 <= i < j < r@.len() ==> (#[trigger] r@[i])@ != (#[trigger] r@[j])@,
            forall|i: int| 0 <= i < r@.len() ==> exists|k: int| 0 <= k < self@.len() && (#[trigger] self@[k])@ == (#[trigger] r@[i])@,
            forall|k: int| 0 <= k < self@.len() ==> exists|i: int| 0 <= i < r@.len() && (#[trigger] r@[i])@ == (#[trigger] self@[k])@,
            r@.len() <= self@.len(),
    { unimplemented!() }
}
impl DedupExt<Str> for Vec<Str> {
    #[verifier::external_body]
    fn dedup_hashset_(self) -> (r: Vec<Str>)
        ensures
            forall|i: int, j: int| 0 <= i < j < r@.len() ==> (#[trigger] r@[i])@ != (#[trigger] r@[j])@,
            forall|i: int| 0 <= i < r@.len() ==> exists|k: int| 0 <= k < self@.len() && (#[trigger] self@[k])@ == (#[trigger] r@[i])@,
            forall|k: int| 0 <= k < self@.len() ==> exists|i: int| 0 <= i < r@.len() && (#[trigger] r@[i])@ == (#[trigger] self@[k])@,
            r@.len() <= self@.len(),
    { unimplemented!() }
}
/// `Vec::dedup` (R5: `.dedup()` -> `.dedup_()`): removes CONSECUTIVE repeated elements only
pub trait DedupAdjExt { fn dedup_(&mut self); }
impl DedupAdjExt for Vec<Str> {
    #[verifier::external_body]
    fn dedup_(&mut self)
        ensures
            final(self)@.len() <= old(self)@.len(),
            forall|i: int| 0 <= i < final(self)@.len() - 1 ==> (#[trigger] final(self)@[i])@ != final(self)@[i + 1]@,
            forall|i: int| 0 <= i < final(self)@.len() ==> exists|k: int| 0 <= k < old(self)@.len() && (#[trigger] old(self)@[k])@ == (#[trigger] final(self)@[i])@,
            forall|k: int| 0 <= k < old(self)@.len() ==> exists|i: int| 0 <= i < final(self)@.len() && (#[trigger] final(self)@[i])@ == (#[trigger] old(self)@[k])@,
    { unimplemented!() }
}
} // verus!
