// spec functions and lemmas for the pool-manager liquidity path (C01, C02, C14, C16, C17, C20)
verus! {
pub open spec fn tf_mint_msg(denom: Seq<char>, amount: nat, to: Seq<char>, m: CosmosMsg) -> bool {
    match m {
        CosmosMsg::Tf(TfMsg::Mint { sender, amount: c, mint_to }) => c.denom@ == denom && c.amount@ == amount && mint_to@ == to,
        _ => false,
    }
}
pub open spec fn tf_burn_msg(denom: Seq<char>, amount: nat, from: Seq<char>, m: CosmosMsg) -> bool {
    match m {
        CosmosMsg::Tf(TfMsg::Burn { sender, amount: c, burn_from }) => c.denom@ == denom && c.amount@ == amount && burn_from@ == from,
        _ => false,
    }
}

/// C02: the withdrawal refund of one asset: floor(reserve * floor18(amount/supply) / 10^18)
pub open spec fn share_ratio_spec(amount: nat, supply: nat) -> nat { (amount * DEC) / supply }
pub open spec fn withdraw_refund(reserve: nat, ratio: nat) -> nat { (reserve * ratio) / DEC }
pub open spec fn refund_coin(c: Coin, ratio: nat) -> Coin {
    Coin { denom: c.denom, amount: Uint128 { v: withdraw_refund(c.amount@, ratio) as u128 } }
}
pub open spec fn refund_seq(assets: Seq<Coin>, ratio: nat) -> Seq<Coin> {
    assets.map_values(|c: Coin| refund_coin(c, ratio))
}
pub open spec fn nonzero_coins(s: Seq<Coin>) -> Seq<Coin> { s.filter(|c: Coin| c.amount@ > 0) }

pub proof fn lemma_coin_sum_push(s: Seq<Coin>, c: Coin, d: Seq<char>)
    ensures coin_sum(s.push(c), d) == coin_sum(s, d) + (if c.denom@ == d { c.amount@ } else { 0 }),
{
    assert(s.push(c).drop_last() =~= s);
}

pub proof fn lemma_coin_sum_nonzero(s: Seq<Coin>, d: Seq<char>)
    ensures coin_sum(nonzero_coins(s), d) == coin_sum(s, d),
    decreases s.len(),
{
    reveal(Seq::filter);
    if s.len() > 0 {
        lemma_coin_sum_nonzero(s.drop_last(), d);
        let sub = nonzero_coins(s.drop_last());
        if s.last().amount@ > 0 {
            assert(nonzero_coins(s) == sub.push(s.last()));
            lemma_coin_sum_push(sub, s.last(), d);
        } else {
            assert(nonzero_coins(s) == sub);
        }
    } else {
        assert(nonzero_coins(s) =~= Seq::<Coin>::empty());
    }
}

pub proof fn lemma_coin_sum_absent(s: Seq<Coin>, d: Seq<char>)
    requires forall|i: int| 0 <= i < s.len() ==> #[trigger] s[i].denom@ != d,
    ensures coin_sum(s, d) == 0,
    decreases s.len(),
{
    if s.len() > 0 {
        assert forall|i: int| 0 <= i < s.drop_last().len() implies #[trigger] s.drop_last()[i].denom@ != d by { assert(s.drop_last()[i] == s[i]); }
        lemma_coin_sum_absent(s.drop_last(), d);
    }
}

pub proof fn lemma_coin_sum_distinct(s: Seq<Coin>, j: int)
    requires denoms_distinct(s), 0 <= j < s.len(),
    ensures coin_sum(s, s[j].denom@) == s[j].amount@,
    decreases s.len(),
{
    let d = s[j].denom@;
    let t = s.drop_last();
    assert forall|a: int, b: int| 0 <= a < b < t.len() implies #[trigger] t[a].denom@ != #[trigger] t[b].denom@ by { assert(t[a] == s[a]); assert(t[b] == s[b]); }
    if j == s.len() - 1 {
        assert forall|i: int| 0 <= i < t.len() implies #[trigger] t[i].denom@ != d by { assert(t[i] == s[i]); }
        lemma_coin_sum_absent(t, d);
    } else {
        assert(t[j] == s[j]);
        lemma_coin_sum_distinct(t, j);
        assert(s.last().denom@ != d);
    }
}

/// the non-zero refund coins carry, per pool asset, exactly that asset's refund, and nothing for other denoms
pub proof fn lemma_withdraw_refund_sums(p: PoolInfo, ratio: nat)
    requires pool_wf(p), ratio <= DEC,
    ensures
        forall|j: int| 0 <= j < p.assets@.len() ==> coin_sum(nonzero_coins(refund_seq(p.assets@, ratio)), #[trigger] p.assets@[j].denom@) == withdraw_refund(p.assets@[j].amount@, ratio),
        forall|j: int| 0 <= j < p.assets@.len() ==> withdraw_refund(#[trigger] p.assets@[j].amount@, ratio) <= p.assets@[j].amount@,
        forall|k: int| 0 <= k < nonzero_coins(refund_seq(p.assets@, ratio)).len() ==> has_asset(p, #[trigger] nonzero_coins(refund_seq(p.assets@, ratio))[k].denom@),
{
    let rs = refund_seq(p.assets@, ratio);
    let nz = nonzero_coins(rs);
    assert forall|a: int, b: int| 0 <= a < b < rs.len() implies #[trigger] rs[a].denom@ != #[trigger] rs[b].denom@ by {
        assert(p.assets@[a].denom@ != p.assets@[b].denom@);
    }
    assert forall|j: int| 0 <= j < p.assets@.len() implies withdraw_refund(#[trigger] p.assets@[j].amount@, ratio) <= p.assets@[j].amount@ by {
        lemma_refund_le_reserve(p.assets@[j].amount@, ratio);
    }
    assert forall|j: int| 0 <= j < p.assets@.len() implies coin_sum(nz, #[trigger] p.assets@[j].denom@) == withdraw_refund(p.assets@[j].amount@, ratio) by {
        lemma_refund_le_reserve(p.assets@[j].amount@, ratio);
        lemma_coin_sum_nonzero(rs, p.assets@[j].denom@);
        assert(rs[j].denom@ == p.assets@[j].denom@);
        lemma_coin_sum_distinct(rs, j);
    }
    assert forall|k: int| 0 <= k < nz.len() implies has_asset(p, #[trigger] nz[k].denom@) by {
        lemma_filter_member(rs, |c: Coin| c.amount@ > 0, k);
        let i = choose|i: int| 0 <= i < rs.len() && #[trigger] rs[i] == nz[k];
        assert(p.assets@[i].denom@ == nz[k].denom@);
    }
}

/// a refund never exceeds the reserve it is taken from when the share ratio is at most 1
pub proof fn lemma_refund_le_reserve(reserve: nat, ratio: nat)
    requires ratio <= DEC,
    ensures withdraw_refund(reserve, ratio) <= reserve,
{
    assert(reserve * ratio <= reserve * DEC) by (nonlinear_arith) requires ratio <= DEC;
    vstd::arithmetic::div_mod::lemma_div_is_ordered((reserve * ratio) as int, (reserve * DEC) as int, DEC as int);
    vstd::arithmetic::div_mod::lemma_div_multiples_vanish(reserve as int, DEC as int);
}

// @lemma withdraw_refund_upper_bound [C02]
/// C02: a withdrawal pays, for each asset, at most reserve * burned / supply
pub proof fn lemma_refund_upper(reserve: nat, amount: nat, supply: nat)
    requires supply > 0,
    ensures withdraw_refund(reserve, share_ratio_spec(amount, supply)) * supply <= reserve * amount,
{
    let ratio = share_ratio_spec(amount, supply);
    let r = withdraw_refund(reserve, ratio);
    vstd::arithmetic::div_mod::lemma_fundamental_div_mod((amount * DEC) as int, supply as int);
    vstd::arithmetic::div_mod::lemma_mod_bound((amount * DEC) as int, supply as int);
    assert(supply * ratio <= amount * DEC);
    vstd::arithmetic::div_mod::lemma_fundamental_div_mod((reserve * ratio) as int, DEC as int);
    vstd::arithmetic::div_mod::lemma_mod_bound((reserve * ratio) as int, DEC as int);
    assert(DEC * r <= reserve * ratio);
    assert(DEC * (r * supply) <= DEC * (reserve * amount)) by (nonlinear_arith)
        requires DEC * r <= reserve * ratio, supply * ratio <= amount * DEC;
    assert(r * supply <= reserve * amount) by (nonlinear_arith) requires DEC * (r * supply) <= DEC * (reserve * amount);
}

} // verus!
