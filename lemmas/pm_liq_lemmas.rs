// spec functions and lemmas for the pool-manager liquidity path (C01, C02, C14, C16, C17, C20)
verus! {
pub open spec fn tf_mint_msg(denom: Seq<char>, amount: nat, to: Seq<char>, m: CosmosMsg) -> bool {
    match m {
        CosmosMsg::Tf(TfMsg::Mint { sender, amount: c, mint_to }) => c.denom@ == denom && c.amount@ == amount && mint_to@ == to,
        _ => false,
    }
}
pub open spec fn tf_burn_msg(denom: Seq<char>, amount: nat, from: Seq<char>, m: CosmosMsg) -> bool {
    match m {
        CosmosMsg::Tf(TfMsg::Burn { sender, amount: c, burn_from }) => c.denom@ == denom && c.amount@ == amount && burn_from@ == from,
        _ => false,
    }
}

/// C02: the withdrawal refund of one asset: floor(reserve * floor18(amount/supply) / 10^18)
pub open spec fn share_ratio_spec(amount: nat, supply: nat) -> nat { (amount * DEC) / supply }
/// C02: what a withdrawal of `amount` LP out of `supply` pays from a reserve: the exact floor(reserve * amount / supply)
/// (fix F5; before it the share was first truncated to 18 decimals, which short-changed the holder by up to reserve * 1e-18)
pub open spec fn withdraw_refund(reserve: nat, amount: nat, supply: nat) -> nat { (reserve * amount) / supply }
pub open spec fn refund_coin(c: Coin, amount: nat, supply: nat) -> Coin {
    Coin { denom: c.denom, amount: Uint128 { v: withdraw_refund(c.amount@, amount, supply) as u128 } }
}
pub open spec fn refund_seq(assets: Seq<Coin>, amount: nat, supply: nat) -> Seq<Coin> {
    assets.map_values(|c: Coin| refund_coin(c, amount, supply))
}
pub open spec fn nonzero_coins(s: Seq<Coin>) -> Seq<Coin> { s.filter(|c: Coin| c.amount@ > 0) }

pub proof fn lemma_coin_sum_push(s: Seq<Coin>, c: Coin, d: Seq<char>)
    ensures coin_sum(s.push(c), d) == coin_sum(s, d) + (if c.denom@ == d { c.amount@ } else { 0 }),
{
    assert(s.push(c).drop_last() =~= s);
}

pub proof fn lemma_coin_sum_nonzero(s: Seq<Coin>, d: Seq<char>)
    ensures coin_sum(nonzero_coins(s), d) == coin_sum(s, d),
    decreases s.len(),
{
    reveal(Seq::filter);
    if s.len() > 0 {
        lemma_coin_sum_nonzero(s.drop_last(), d);
        let sub = nonzero_coins(s.drop_last());
        if s.last().amount@ > 0 {
            assert(nonzero_coins(s) == sub.push(s.last()));
            lemma_coin_sum_push(sub, s.last(), d);
        } else {
            assert(nonzero_coins(s) == sub);
        }
    } else {
        assert(nonzero_coins(s) =~= Seq::<Coin>::empty());
    }
}

pub proof fn lemma_coin_sum_absent(s: Seq<Coin>, d: Seq<char>)
    requires forall|i: int| 0 <= i < s.len() ==> #[trigger] s[i].denom@ != d,
    ensures coin_sum(s, d) == 0,
    decreases s.len(),
{
    if s.len() > 0 {
        assert forall|i: int| 0 <= i < s.drop_last().len() implies #[trigger] s.drop_last()[i].denom@ != d by { assert(s.drop_last()[i] == s[i]); }
        lemma_coin_sum_absent(s.drop_last(), d);
    }
}

pub proof fn lemma_coin_sum_distinct(s: Seq<Coin>, j: int)
    requires denoms_distinct(s), 0 <= j < s.len(),
    ensures coin_sum(s, s[j].denom@) == s[j].amount@,
    decreases s.len(),
{
    let d = s[j].denom@;
    let t = s.drop_last();
    assert forall|a: int, b: int| 0 <= a < b < t.len() implies #[trigger] t[a].denom@ != #[trigger] t[b].denom@ by { assert(t[a] == s[a]); assert(t[b] == s[b]); }
    if j == s.len() - 1 {
        assert forall|i: int| 0 <= i < t.len() implies #[trigger] t[i].denom@ != d by { assert(t[i] == s[i]); }
        lemma_coin_sum_absent(t, d);
    } else {
        assert(t[j] == s[j]);
        lemma_coin_sum_distinct(t, j);
        assert(s.last().denom@ != d);
    }
}

/// the non-zero refund coins carry, per pool asset, exactly that asset's refund, and nothing for other denoms
pub proof fn lemma_withdraw_refund_sums(p: PoolInfo, amount: nat, supply: nat)
    requires pool_wf(p), forall|j: int| 0 <= j < p.assets@.len() ==> withdraw_refund(#[trigger] p.assets@[j].amount@, amount, supply) <= U128_MAX,
    ensures
        forall|j: int| 0 <= j < p.assets@.len() ==> coin_sum(nonzero_coins(refund_seq(p.assets@, amount, supply)), #[trigger] p.assets@[j].denom@) == withdraw_refund(p.assets@[j].amount@, amount, supply),
        forall|k: int| 0 <= k < nonzero_coins(refund_seq(p.assets@, amount, supply)).len() ==> has_asset(p, #[trigger] nonzero_coins(refund_seq(p.assets@, amount, supply))[k].denom@),
{
    let rs = refund_seq(p.assets@, amount, supply);
    let nz = nonzero_coins(rs);
    assert forall|a: int, b: int| 0 <= a < b < rs.len() implies #[trigger] rs[a].denom@ != #[trigger] rs[b].denom@ by {
        assert(p.assets@[a].denom@ != p.assets@[b].denom@);
    }
    assert forall|j: int| 0 <= j < p.assets@.len() implies coin_sum(nz, #[trigger] p.assets@[j].denom@) == withdraw_refund(p.assets@[j].amount@, amount, supply) by {
        assert(withdraw_refund(p.assets@[j].amount@, amount, supply) <= U128_MAX);
        lemma_coin_sum_nonzero(rs, p.assets@[j].denom@);
        assert(rs[j].denom@ == p.assets@[j].denom@);
        lemma_coin_sum_distinct(rs, j);
    }
    assert forall|k: int| 0 <= k < nz.len() implies has_asset(p, #[trigger] nz[k].denom@) by {
        lemma_filter_member(rs, |c: Coin| c.amount@ > 0, k);
        let i = choose|i: int| 0 <= i < rs.len() && #[trigger] rs[i] == nz[k];
        assert(p.assets@[i].denom@ == nz[k].denom@);
    }
}

// @lemma withdraw_refund_upper_bound [C02]
/// C02: a withdrawal pays, for each asset, at most reserve * burned / supply
pub proof fn lemma_refund_upper(reserve: nat, amount: nat, supply: nat)
    requires supply > 0,
    ensures withdraw_refund(reserve, amount, supply) * supply <= reserve * amount,
{
    vstd::arithmetic::div_mod::lemma_fundamental_div_mod((reserve * amount) as int, supply as int);
    vstd::arithmetic::div_mod::lemma_mod_bound((reserve * amount) as int, supply as int);
    let r = withdraw_refund(reserve, amount, supply);
    assert(r * supply == supply * r) by (nonlinear_arith);
}

// @lemma withdraw_refund_lower_bound [C02]
/// C02: "... and at least that minus one smallest unit": the refund is less than one unit below reserve * burned / supply
pub proof fn lemma_refund_lower(reserve: nat, amount: nat, supply: nat)
    requires supply > 0,
    ensures (withdraw_refund(reserve, amount, supply) + 1) * supply > reserve * amount,
{
    vstd::arithmetic::div_mod::lemma_fundamental_div_mod((reserve * amount) as int, supply as int);
    vstd::arithmetic::div_mod::lemma_mod_bound((reserve * amount) as int, supply as int);
    let r = withdraw_refund(reserve, amount, supply);
    assert((r + 1) * supply == supply * r + supply) by (nonlinear_arith);
}

} // verus!
verus! {
// ---------------------------------------------------------------- provide_liquidity
/// result of the (assumed deterministic) stableswap LP mint computation
pub uninterp spec fn ss_mint_spec(amp: u64, old_assets: Seq<Coin>, new_assets: Seq<Coin>, supply: Uint128, p: PoolInfo) -> Result<Option<Uint128>, ContractError>;

/// C02: constant-product mint on a funded pool: min over the two deposits of floor(deposit * supply / reserve)
pub open spec fn cp_share_of(dep: nat, supply: nat, reserve: nat) -> nat { (dep * supply) / reserve }

/// every pool asset's reserve grew by exactly the attached amount of its denom (0 if none attached)
pub open spec fn reserves_plus_funds(old_p: PoolInfo, new_p: PoolInfo, funds: Seq<Coin>) -> bool {
    pool_static_eq(old_p, new_p) && old_p.status == new_p.status
    && forall|j: int| 0 <= j < old_p.assets@.len() ==> (#[trigger] new_p.assets@[j]).amount@ == old_p.assets@[j].amount@ + coin_sum(funds, old_p.assets@[j].denom@)
}

pub open spec fn wasm_to(m: CosmosMsg, addr: Seq<char>) -> bool {
    match m { CosmosMsg::Wasm(w) => w.contract_addr@ == addr, _ => false }
}
pub open spec fn wasm_funds_one(m: CosmosMsg, denom: Seq<char>, amount: nat) -> bool {
    match m { CosmosMsg::Wasm(w) => w.funds@.len() == 1 && w.funds@[0].denom@ == denom && w.funds@[0].amount@ == amount, _ => false }
}

/// first leg of a single-asset deposit: the self-Swap sub-message (reply on success, id 1) carrying exactly `half`
pub open spec fn single_side_swap_submsg(m: SubMsg, contract: Seq<char>, half: Coin, ask: Seq<char>, max: Option<Decimal>, pool_id: Seq<char>) -> bool {
    m.id == 1 && m.reply_on == ReplyOn::Success
    && (match m.msg {
        CosmosMsg::Wasm(w) => w.contract_addr@ == contract && w.funds@.len() == 1 && w.funds@[0] == half
            && (match w.payload {
                WasmPayload::Pm(ExecuteMsg::Swap { ask_asset_denom, belief_price, max_slippage, receiver, pool_identifier }) =>
                    ask_asset_denom@ == ask && belief_price is None && max_slippage == max && receiver is None && pool_identifier@ == pool_id,
                _ => false,
            }),
        _ => false,
    })
}

pub proof fn lemma_coin_sum_take_all(s: Seq<Coin>, d: Seq<char>)
    ensures coin_sum(s.take(s.len() as int), d) == coin_sum(s, d),
{
    assert(s.take(s.len() as int) =~= s);
}
pub proof fn lemma_coin_sum_take_step(s: Seq<Coin>, i: int, d: Seq<char>)
    requires 0 <= i < s.len(),
    ensures coin_sum(s.take(i + 1), d) == coin_sum(s.take(i), d) + (if s[i].denom@ == d { s[i].amount@ } else { 0 }),
{
    assert(s.take(i + 1).drop_last() =~= s.take(i));
}

pub open spec fn all_same_denom(funds: Seq<Coin>) -> bool { forall|k: int| 0 <= k < funds.len() ==> (#[trigger] funds[k]).denom@ == funds[0].denom@ }
/// `agg` is the aggregation of `funds` (as specified for aggregate_coins)
pub open spec fn is_aggregation(funds: Seq<Coin>, agg: Seq<Coin>) -> bool {
    denoms_distinct(agg)
    && (forall|d: Seq<char>| coin_sum(agg, d) == #[trigger] coin_sum(funds, d))
    && (forall|i: int| 0 <= i < agg.len() ==> has_denom(funds, #[trigger] agg[i].denom@))
    && (forall|k: int| 0 <= k < funds.len() ==> has_denom(agg, #[trigger] funds[k].denom@))
    && (funds.len() > 0 ==> agg.len() > 0) && agg.len() <= funds.len()
}
pub proof fn lemma_agg_single(funds: Seq<Coin>, agg: Seq<Coin>)
    requires is_aggregation(funds, agg), funds.len() > 0,
    ensures (agg.len() == 1) == all_same_denom(funds),
        agg.len() == 1 ==> agg[0].denom@ == funds[0].denom@ && agg[0].amount@ == coin_sum(funds, funds[0].denom@),
{
    if agg.len() == 1 {
        assert forall|k: int| 0 <= k < funds.len() implies (#[trigger] funds[k]).denom@ == funds[0].denom@ by {
            assert(has_denom(agg, funds[k].denom@));
            assert(has_denom(agg, funds[0].denom@));
        }
        assert(has_denom(agg, funds[0].denom@));
        lemma_coin_sum_distinct(agg, 0);
    }
    if all_same_denom(funds) {
        if agg.len() >= 2 {
            assert(has_denom(funds, agg[0].denom@));
            assert(has_denom(funds, agg[1].denom@));
            assert(agg[0].denom@ != agg[1].denom@);
        }
    }
}
/// denoms of an aggregation that are pool assets: the attached coins are pool assets too
pub proof fn lemma_funds_in_pool(p: PoolInfo, funds: Seq<Coin>, agg: Seq<Coin>)
    requires is_aggregation(funds, agg), forall|i: int| 0 <= i < agg.len() ==> has_denom(p.assets@, #[trigger] agg[i].denom@),
    ensures forall|k: int| 0 <= k < funds.len() ==> has_asset(p, #[trigger] funds[k].denom@),
{
    assert forall|k: int| 0 <= k < funds.len() implies has_asset(p, #[trigger] funds[k].denom@) by {
        assert(has_denom(agg, funds[k].denom@));
        let i = choose|i: int| 0 <= i < agg.len() && #[trigger] agg[i].denom@ == funds[k].denom@;
        assert(has_denom(p.assets@, agg[i].denom@));
    }
}

/// LP amount minted for the depositor: carried by the last mint message (before the farm-manager call when locking)
pub open spec fn user_shares(ms: Seq<SubMsg>, lock: bool) -> nat {
    let k = if lock { ms.len() - 2 } else { ms.len() - 1 };
    match ms[k].msg { CosmosMsg::Tf(TfMsg::Mint { sender, amount, mint_to }) => amount.amount@, _ => 0 }
}
/// C01/C02/C08: exact message list of a two-sided deposit
pub open spec fn deposit_msgs_ok(ms: Seq<SubMsg>, lp: Seq<char>, contract: Seq<char>, receiver: Seq<char>, fm: Seq<char>,
    first: bool, min_liq: nat, lock: bool) -> bool {
    let n_first: int = if first { 1 } else { 0 };
    let n_rest: int = if lock { 2 } else { 1 };
    ms.len() == n_first + n_rest
    && (forall|i: int| 0 <= i < ms.len() ==> plain(#[trigger] ms[i]))
    && (first ==> tf_mint_msg(lp, min_liq, contract, ms[0].msg))
    && (!lock ==> tf_mint_msg(lp, user_shares(ms, lock), receiver, ms[n_first].msg))
    && (lock ==> tf_mint_msg(lp, user_shares(ms, lock), contract, ms[n_first].msg)
        && wasm_to(ms[n_first + 1].msg, fm) && wasm_funds_one(ms[n_first + 1].msg, lp, user_shares(ms, lock)))
}
/// C08/C15: the farm manager answered a Positions query with exactly one position, carrying this identifier and this receiver
pub open spec fn fm_reported_position(q: Querier, fm: Seq<char>, id: Seq<char>, rcv: Seq<char>) -> bool {
    exists|resp: PositionsResponse| #[trigger] wasm_answered(q, fm, resp)
        && resp.positions@.len() == 1 && resp.positions@[0].identifier@ == id && resp.positions@[0].receiver@ == rcv
}
/// the farm-manager call of a locked deposit: Expand{identifier} of an existing position, or Create{.., receiver: Some(receiver)}
pub open spec fn lock_call_ok(m: CosmosMsg, receiver: Seq<char>, unlocking_duration: u64, lock_id: Option<Str>) -> bool {
    match m {
        CosmosMsg::Wasm(w) => match w.payload {
            WasmPayload::Fm(FmExecuteMsg::ManagePosition { action }) => match action {
                FmPositionAction::Expand { identifier } => lock_id is Some && identifier@ == lock_id->Some_0@,
                FmPositionAction::Create { identifier, unlocking_duration: ud, receiver: r } =>
                    ud == unlocking_duration && r is Some && r->Some_0@ == receiver
                    && (match lock_id { Some(i) => identifier is Some && identifier->Some_0@ == i@, None => identifier is None }),
                _ => false,
            },
            _ => false,
        },
        _ => false,
    }
}

/// a two-sided deposit into a two-asset pool: the aggregated deposits are exactly the two pool denoms (in some order)
pub proof fn lemma_two_deposits(p: PoolInfo, funds: Seq<Coin>, agg: Seq<Coin>)
    requires pool_wf(p), p.assets@.len() == 2, is_aggregation(funds, agg), agg.len() >= 2,
        forall|i: int| 0 <= i < agg.len() ==> has_denom(p.assets@, #[trigger] agg[i].denom@),
    ensures agg.len() == 2,
        (agg[0].denom@ == p.assets@[0].denom@ && agg[1].denom@ == p.assets@[1].denom@) || (agg[0].denom@ == p.assets@[1].denom@ && agg[1].denom@ == p.assets@[0].denom@),
        agg[0].amount@ == coin_sum(funds, agg[0].denom@), agg[1].amount@ == coin_sum(funds, agg[1].denom@),
{
    assert(has_denom(p.assets@, agg[0].denom@));
    assert(has_denom(p.assets@, agg[1].denom@));
    assert(agg[0].denom@ != agg[1].denom@);
    if agg.len() >= 3 {
        assert(has_denom(p.assets@, agg[2].denom@));
        assert(agg[0].denom@ != agg[2].denom@);
        assert(agg[1].denom@ != agg[2].denom@);
    }
    lemma_coin_sum_distinct(agg, 0);
    lemma_coin_sum_distinct(agg, 1);
}
} // verus!
