verus! {
} // verus!
