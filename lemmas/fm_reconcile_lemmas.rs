// spec helpers used only by unit fm_reconcile (its own file: the fm_rewards proofs are sensitive to extra definitions): C10, C07
verus! {
pub open spec fn no_weights(s: Storage, a: Seq<char>, lp: Seq<char>) -> bool { forall|e: u64| !has_weight(s, a, lp, e) }
pub open spec fn rc_id_at(v: Seq<Position>, i: int) -> Seq<char> { v[i].identifier@ }
/// `v` is a listing of open positions of `receiver`, each exactly as stored, and it is the complete set whenever it is shorter than
/// a full page of ten (MAX_POSITIONS_LIMIT, which validate_positions_limit keeps as the most a user can hold)
pub open spec fn open_listing(s: Storage, receiver: Seq<char>, v: Seq<Position>) -> bool {
    (forall|i: int| 0 <= i < v.len() ==> is_position_of(s, receiver, Some(true), #[trigger] rc_id_at(v, i)) && s.positions@[rc_id_at(v, i)] == v[i])
    && (v.len() < 10 ==> forall|id: Seq<char>| is_position_of(s, receiver, Some(true), id) ==> exists|i: int| 0 <= i < v.len() && #[trigger] rc_id_at(v, i) == id)
}
/// C10/C07: the claim cursor is dropped only when that listing is empty, and the (receiver, lp) weight history is touched only when
/// no listed open position is of that LP denom - and then it is wiped whole
pub open spec fn reconciled_from(s0: Storage, s1: Storage, receiver: Seq<char>, lp: Seq<char>, v: Seq<Position>) -> bool {
    open_listing(s0, receiver, v)
    && (v.len() > 0 ==> s1.last_claimed@ == s0.last_claimed@)
    && (v.len() == 0 ==> s1.last_claimed@ == s0.last_claimed@.remove(receiver))
    && ((exists|i: int| 0 <= i < v.len() && (#[trigger] v[i]).lp_asset.denom@ == lp) ==> s1.weights@ == s0.weights@)
    && ((forall|i: int| 0 <= i < v.len() ==> (#[trigger] v[i]).lp_asset.denom@ != lp) ==> no_weights(s1, receiver, lp))
}
pub open spec fn reconciled(s0: Storage, s1: Storage, receiver: Seq<char>, lp: Seq<char>) -> bool {
    exists|v: Seq<Position>| #![trigger v.len()] reconciled_from(s0, s1, receiver, lp, v)
}
pub proof fn lemma_filter_none(s: Seq<Position>, p: spec_fn(Position) -> bool)
    requires s.filter(p).len() == 0,
    ensures forall|i: int| 0 <= i < s.len() ==> !p(#[trigger] s[i]),
    decreases s.len(),
{
    reveal(Seq::filter);
    if s.len() > 0 {
        let t = s.drop_last();
        if p(s.last()) { assert(s.filter(p) == t.filter(p).push(s.last())); assert(false); }
        assert(s.filter(p) == t.filter(p));
        lemma_filter_none(t, p);
        assert forall|i: int| 0 <= i < s.len() implies !p(#[trigger] s[i]) by {
            if i < s.len() - 1 { assert(t[i] == s[i]); }
        }
    }
}
pub proof fn lemma_filter_some(s: Seq<Position>, p: spec_fn(Position) -> bool)
    requires s.filter(p).len() > 0,
    ensures exists|i: int| 0 <= i < s.len() && p(#[trigger] s[i]),
    decreases s.len(),
{
    reveal(Seq::filter);
    if s.len() > 0 {
        let t = s.drop_last();
        if p(s.last()) { assert(p(s[s.len() - 1])); }
        else {
            assert(s.filter(p) == t.filter(p));
            lemma_filter_some(t, p);
            let i = choose|i: int| 0 <= i < t.len() && p(#[trigger] t[i]);
            assert(t[i] == s[i]);
        }
    }
}
} // verus!
