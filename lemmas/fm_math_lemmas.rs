// spec functions and lemmas for the farm-manager arithmetic (C09, C10, C11, C06)
verus! {
pub spec const WK: nat = 7791996353100889432894;
/// C10: weight multiplier (18-decimals atomics) as coded: quadratic interpolation through (1d,1x) (~6m,5x) (1y,16x)
pub open spec fn weight_mult(d: nat) -> nat {
    ((d * d) * 109498841 * DEC) / WK + ((d * 249042009202369) * DEC) / WK + (246210981355969 * DEC) / 246918738317569
}
pub open spec fn weight_spec(amount: nat, d: nat) -> nat {
    let w = (amount * weight_mult(d)) / DEC;
    if w >= amount { w } else { amount }
}
pub open spec fn valid_duration(d: nat) -> bool { 86400 <= d <= 31556926 }

/// the Decimal256 pipeline of calculate_weight computes exactly weight_mult / weight_spec (all intermediate products are exact)
pub proof fn lemma_weight_intermediates(a: nat, d: nat)
    ensures
        ((d * DEC) * (d * DEC)) / DEC == (d * d) * DEC,
        (((d * d) * DEC) * 109498841) / DEC == (d * d) * 109498841,
        ((d * DEC) * 249042009202369) / DEC == d * 249042009202369,
        ((a * DEC) * weight_mult(d)) / DEC == a * weight_mult(d),
{
    assert((d * DEC) * (d * DEC) == ((d * d) * DEC) * DEC) by (nonlinear_arith);
    vstd::arithmetic::div_mod::lemma_div_multiples_vanish(((d * d) * DEC) as int, DEC as int);
    assert(((d * d) * DEC) * 109498841 == ((d * d) * 109498841) * DEC) by (nonlinear_arith);
    vstd::arithmetic::div_mod::lemma_div_multiples_vanish(((d * d) * 109498841) as int, DEC as int);
    assert((d * DEC) * 249042009202369 == (d * 249042009202369) * DEC) by (nonlinear_arith);
    vstd::arithmetic::div_mod::lemma_div_multiples_vanish((d * 249042009202369) as int, DEC as int);
    assert((a * DEC) * weight_mult(d) == (a * weight_mult(d)) * DEC) by (nonlinear_arith);
    vstd::arithmetic::div_mod::lemma_div_multiples_vanish((a * weight_mult(d)) as int, DEC as int);
    assert(DEC * ((d * d) * DEC) == ((d * d) * DEC) * DEC) by (nonlinear_arith);
    assert(DEC * ((d * d) * 109498841) == ((d * d) * 109498841) * DEC) by (nonlinear_arith);
    assert(DEC * (d * 249042009202369) == (d * 249042009202369) * DEC) by (nonlinear_arith);
    assert(DEC * (a * weight_mult(d)) == (a * weight_mult(d)) * DEC) by (nonlinear_arith);
}

/// for durations up to one year every intermediate of calculate_weight fits 256 bits
pub proof fn lemma_weight_fits(a: nat, d: nat)
    requires valid_duration(d), a <= U128_MAX,
    ensures
        d * DEC <= u256_max(), a * DEC <= u256_max(),
        (d * d) * DEC <= u256_max(), (d * d) * 109498841 <= u256_max(), d * 249042009202369 <= u256_max(),
        ((d * d) * 109498841 * DEC) / WK <= u256_max(), ((d * 249042009202369) * DEC) / WK <= u256_max(),
        weight_mult(d) <= 16 * DEC, a * weight_mult(d) <= u256_max(),
        (246210981355969 * DEC) / 246918738317569 <= DEC,
{
    let dm: nat = 31556926;
    assert(d * d <= dm * dm) by (nonlinear_arith) requires d <= dm;
    assert((dm * dm) * 109498841 * DEC <= u256_max()) by (compute);
    assert((d * d) * 109498841 * DEC <= (dm * dm) * 109498841 * DEC) by (nonlinear_arith) requires d * d <= dm * dm;
    assert((d * d) * DEC <= (d * d) * 109498841 * DEC) by (nonlinear_arith);
    assert((d * d) * 109498841 <= (d * d) * 109498841 * DEC) by (nonlinear_arith);
    assert((dm * 249042009202369) * DEC <= u256_max()) by (compute);
    assert((d * 249042009202369) * DEC <= (dm * 249042009202369) * DEC) by (nonlinear_arith) requires d <= dm;
    assert(d * 249042009202369 <= (d * 249042009202369) * DEC) by (nonlinear_arith);
    assert(d * DEC <= (d * 249042009202369) * DEC) by (nonlinear_arith);
    vstd::arithmetic::div_mod::lemma_div_is_ordered_by_denominator(((d * d) * 109498841 * DEC) as int, 1, WK as int);
    vstd::arithmetic::div_mod::lemma_div_is_ordered_by_denominator(((d * 249042009202369) * DEC) as int, 1, WK as int);
    lemma_mult_monotone(d, dm);
    lemma_mult_at_max();
    assert(a * weight_mult(d) <= U128_MAX * (16 * DEC)) by (nonlinear_arith) requires a <= U128_MAX, weight_mult(d) <= 16 * DEC;
    assert(U128_MAX * (16 * DEC) <= u256_max()) by (compute);
    assert(a * DEC <= U128_MAX * DEC) by (nonlinear_arith) requires a <= U128_MAX;
    assert(U128_MAX * DEC <= u256_max()) by (compute);
    assert((246210981355969 * DEC) / 246918738317569 <= DEC) by (compute);
}

pub proof fn lemma_mult_monotone(d1: nat, d2: nat)
    requires d1 <= d2,
    ensures weight_mult(d1) <= weight_mult(d2),
{
    assert(d1 * d1 <= d2 * d2) by (nonlinear_arith) requires d1 <= d2;
    assert((d1 * d1) * 109498841 * DEC <= (d2 * d2) * 109498841 * DEC) by (nonlinear_arith) requires d1 * d1 <= d2 * d2;
    assert((d1 * 249042009202369) * DEC <= (d2 * 249042009202369) * DEC) by (nonlinear_arith) requires d1 <= d2;
    vstd::arithmetic::div_mod::lemma_div_is_ordered(((d1 * d1) * 109498841 * DEC) as int, ((d2 * d2) * 109498841 * DEC) as int, WK as int);
    vstd::arithmetic::div_mod::lemma_div_is_ordered(((d1 * 249042009202369) * DEC) as int, ((d2 * 249042009202369) * DEC) as int, WK as int);
}
pub proof fn lemma_mult_at_max()
    ensures weight_mult(31556926) <= 16 * DEC, weight_mult(31556926) == 15_999_999_999_999_999_998nat,
{
    assert(weight_mult(31556926) == 15_999_999_999_999_999_998nat) by (compute);
}

// @lemma weight_between_amount_and_16x [C10]
pub proof fn lemma_weight_bounds(amount: nat, d: nat)
    requires valid_duration(d),
    ensures amount <= weight_spec(amount, d) <= 16 * amount,
{
    lemma_mult_monotone(d, 31556926);
    lemma_mult_at_max();
    let m = weight_mult(d);
    assert(amount * m <= amount * (16 * DEC)) by (nonlinear_arith) requires m <= 16 * DEC;
    assert(amount * (16 * DEC) == (16 * amount) * DEC) by (nonlinear_arith);
    vstd::arithmetic::div_mod::lemma_div_is_ordered((amount * m) as int, ((16 * amount) * DEC) as int, DEC as int);
    vstd::arithmetic::div_mod::lemma_div_multiples_vanish((16 * amount) as int, DEC as int);
}

// @lemma weight_monotone_in_amount_and_duration [C10]
pub proof fn lemma_weight_monotone(a1: nat, a2: nat, d1: nat, d2: nat)
    requires a1 <= a2, d1 <= d2,
    ensures weight_spec(a1, d1) <= weight_spec(a2, d2),
{
    lemma_mult_monotone(d1, d2);
    let m1 = weight_mult(d1);
    let m2 = weight_mult(d2);
    assert(a1 * m1 <= a2 * m2) by (nonlinear_arith) requires a1 <= a2, m1 <= m2;
    vstd::arithmetic::div_mod::lemma_div_is_ordered((a1 * m1) as int, (a2 * m2) as int, DEC as int);
}

/// C09: emergency penalty (18-decimals atomics): min(base * remaining/duration * weight/amount, 0.9)
pub open spec fn remaining_of(expiring_at: Option<u64>, duration: u64, now: u64) -> nat {
    match expiring_at { Some(e) => if e >= now { (e - now) as nat } else { 0 }, None => duration as nat }
}
pub open spec fn penalty_raw(base: nat, remaining: nat, duration: nat, weight: nat, amount: nat) -> nat {
    (((base * ((remaining * DEC) / duration)) / DEC) * ((weight * DEC) / amount)) / DEC
}
pub open spec fn penalty_spec(base: nat, remaining: nat, duration: nat, weight: nat, amount: nat) -> nat {
    let p = penalty_raw(base, remaining, duration, weight, amount);
    if p <= 900_000_000_000_000_000 { p } else { 900_000_000_000_000_000 }
}
// @lemma penalty_never_increases_as_time_passes [C09]
pub proof fn lemma_penalty_monotone(base: nat, r1: nat, r2: nat, duration: nat, weight: nat, amount: nat)
    requires r1 <= r2, duration > 0, amount > 0,
    ensures penalty_spec(base, r1, duration, weight, amount) <= penalty_spec(base, r2, duration, weight, amount),
{
    let f1 = (r1 * DEC) / duration;
    let f2 = (r2 * DEC) / duration;
    assert(r1 * DEC <= r2 * DEC) by (nonlinear_arith) requires r1 <= r2;
    vstd::arithmetic::div_mod::lemma_div_is_ordered((r1 * DEC) as int, (r2 * DEC) as int, duration as int);
    assert(base * f1 <= base * f2) by (nonlinear_arith) requires f1 <= f2;
    vstd::arithmetic::div_mod::lemma_div_is_ordered((base * f1) as int, (base * f2) as int, DEC as int);
    let g1 = (base * f1) / DEC;
    let g2 = (base * f2) / DEC;
    let m = (weight * DEC) / amount;
    assert(g1 * m <= g2 * m) by (nonlinear_arith) requires g1 <= g2;
    vstd::arithmetic::div_mod::lemma_div_is_ordered((g1 * m) as int, (g2 * m) as int, DEC as int);
}
// @lemma penalty_zero_once_unlocked [C09]
pub proof fn lemma_penalty_zero_at_expiry(base: nat, duration: nat, weight: nat, amount: nat)
    requires duration > 0,
    ensures penalty_spec(base, 0, duration, weight, amount) == 0,
{
    assert((0 * DEC) / duration == 0) by (nonlinear_arith) requires duration > 0;
    assert(base * 0 == 0);
    assert((0nat * ((weight * DEC) / amount)) / DEC == 0) by (nonlinear_arith);
}

/// C11: messages of the creation-fee step
pub open spec fn send_one(m: CosmosMsg, to: Seq<char>, denom: Seq<char>, amount: nat) -> bool {
    match m {
        CosmosMsg::Bank(BankMsg::Send { to_address, amount: coins }) => to_address@ == to && coins@.len() == 1 && coins@[0].denom@ == denom && coins@[0].amount@ == amount,
        _ => false,
    }
}
/// first attached coin of the given denom (funds of a message have unique denoms on chain)
pub open spec fn first_of(funds: Seq<Coin>, denom: Seq<char>) -> int {
    choose|i: int| 0 <= i < funds.len() && funds[i].denom@ == denom && forall|j: int| 0 <= j < i ==> funds[j].denom@ != denom
}
pub open spec fn has_coin(funds: Seq<Coin>, denom: Seq<char>) -> bool { exists|i: int| 0 <= i < funds.len() && #[trigger] funds[i].denom@ == denom }
} // verus!
