// spec helper used only by unit fm_ident: C08, C11
verus! {
/// the characters farm-manager's `validate_identifier` lets through: ASCII letters and digits, '.', '-', '_'
pub open spec fn fm_allowed_identifier_char(c: char) -> bool { ascii_alnum(c) || c == '.' || c == '-' || c == '_' }
} // verus!
