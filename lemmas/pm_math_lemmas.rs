// spec functions (taken from the property statements C03/C04/C12/C13) and lemmas for the pool-manager math
verus! {

/// well-formed pool record: the three per-asset vectors are aligned and denoms are pairwise distinct
pub open spec fn pool_wf(p: PoolInfo) -> bool {
    2 <= p.assets@.len() <= 4 && (p.pool_type is ConstantProduct ==> p.assets@.len() == 2)
    && p.assets@.len() == p.asset_decimals@.len()
    && p.assets@.len() == p.asset_denoms@.len()
    && (forall|i: int| 0 <= i < p.assets@.len() ==> #[trigger] p.assets@[i].denom@ == p.asset_denoms@[i]@)
    && (forall|i: int, j: int| 0 <= i < j < p.assets@.len() ==> #[trigger] p.assets@[i].denom@ != #[trigger] p.assets@[j].denom@)
}

/// C04: "each fee is the configured share of the gross output rounded down"
pub open spec fn fee_spec(share: Decimal, amount: nat) -> nat { (amount * share@) / DEC }

/// sum of the first n extra fees
pub open spec fn extra_fees_sum(fees: Seq<Fee>, amount: nat, n: nat) -> nat
    decreases n
{
    if n == 0 || n > fees.len() { 0 } else { extra_fees_sum(fees, amount, (n - 1) as nat) + fee_spec(fees[n - 1].share, amount) }
}
pub open spec fn total_fees(f: PoolFee, gross: nat) -> nat {
    fee_spec(f.swap_fee.share, gross) + fee_spec(f.protocol_fee.share, gross) + fee_spec(f.burn_fee.share, gross)
        + extra_fees_sum(f.extra_fees@, gross, f.extra_fees@.len())
}

/// sum of the first n extra fee shares (18-decimal atomics)
pub open spec fn extra_shares_sum(fees: Seq<Fee>, n: nat) -> nat
    decreases n
{
    if n == 0 || n > fees.len() { 0 } else { extra_shares_sum(fees, (n - 1) as nat) + fees[n - 1].share@ }
}
/// C12: every share a forward swap deducts from the gross output: swap + protocol + burn + all extra fees
pub open spec fn total_share(f: PoolFee) -> nat {
    f.swap_fee.share@ + f.protocol_fee.share@ + f.burn_fee.share@ + extra_shares_sum(f.extra_fees@, f.extra_fees@.len())
}
/// C12: gross amount that must come out of the pool so that `ask` is left after ALL fees, by exact division: floor(ask * 1e18 / (1e18 - fees)).
/// The quoted offer is computed from this value (fix F10; before it the truncated inverse below was used, which under-quotes by ask * 1e-18).
pub open spec fn reverse_gross_exact_spec(ask: nat, fees: nat) -> nat {
    (ask * DEC) / ((DEC - fees) as nat)
}
/// the gross amount as *reported* in the fee breakdown of the reverse quote (informational fields): floor(ask * floor(1e36/(1e18 - fees)) / 1e18)
pub open spec fn reverse_gross_spec(ask: nat, fees: nat) -> nat {
    let inv = (DEC * DEC) / ((DEC - fees) as nat);
    ((((ask * DEC) / 1) * inv) / DEC) / DEC
}
/// C12: reverse quote on a constant-product pool: x*y / (y - gross - 1) - x
pub open spec fn reverse_offer_spec(x: nat, y: nat, ask: nat, fees: nat) -> nat {
    (((1 * (x * y)) / ((y - reverse_gross_exact_spec(ask, fees) - 1) as nat)) - x) as nat
}
/// stableswap: the ask reserve the pool keeps after a swap, converted from the solver's (max) precision down by k decimals
/// - exactly what compute_swap does with `Decimal256::decimal_with_precision(new_pool, k)?.to_uint_floor()`
pub open spec fn ss_kept_reserve(y: nat, k: nat) -> nat { dec_from_atomics(y, k) / DEC }

// @lemma ss_reserve_conversion_never_below_solver_value [C03]
/// C03: rounding must favour the pool: scaled back to the solver's precision, the reserve the pool keeps must not be below the
/// value y the invariant solver requires (otherwise the trader is paid the rounding remainder: up to 10^k - 1 solver units,
/// i.e. one whole ask unit for an arbitrarily small offer). With the FLOOR conversion of the code this is false whenever y is
/// not a multiple of 10^k: finding F9.
pub proof fn lemma_ss_kept_reserve_covers_y(y: nat, k: nat)
    requires 0 < k <= 18,
    ensures ss_kept_reserve(y, k) * nat_pow(10, k) >= y,
{
}

/// index of a denom in the pool's asset list (first match), or -1
pub open spec fn asset_index(p: PoolInfo, denom: Seq<char>) -> int
{
    choose|i: int| 0 <= i < p.assets@.len() && p.assets@[i].denom@ == denom
}
pub open spec fn has_asset(p: PoolInfo, denom: Seq<char>) -> bool {
    exists|i: int| 0 <= i < p.assets@.len() && p.assets@[i].denom@ == denom
}

/// C13: what the pre-trade pool price values an offer dx at (the "ideal" return the slippage is measured against): the exact
/// floor(dx * y / x) (fix F12; before it the exchange rate y/x was first truncated to 18 decimals)
pub open spec fn cp_ideal_spec(x: nat, y: nat, dx: nat) -> nat { (dx * y) / x }
/// C03: constant-product gross output floor(Y*dx/(X+dx))
pub open spec fn cp_gross(x: nat, y: nat, dx: nat) -> nat { (y * dx) / (x + dx) }

/// gross output of a swap = what the receiver gets + all four fee kinds
pub open spec fn swap_gross(c: SwapComputation) -> nat {
    c.return_amount@ + c.swap_fee_amount@ + c.protocol_fee_amount@ + c.burn_fee_amount@ + c.extra_fees_amount@
}
/// result of the (unverified, assumed deterministic) stableswap Newton solver
pub uninterp spec fn ss_y_spec(p: PoolInfo, d: OfferAskDenoms, ask_pool: Decimal256, offer: Decimal256, amp: u64, dir: StableSwapDirection) -> Result<Uint256, ContractError>;

/// 128-bit reserves and offers: the Decimal256 detour in compute_swap cannot overflow
pub proof fn lemma_cp_gross_fits(x: nat, y: nat, dx: nat)
    ensures x <= U128_MAX && y <= U128_MAX && dx <= U128_MAX && x + dx > 0 ==>
        ((y * dx) * DEC) / (x + dx) <= u256_max() && x + dx <= u256_max() && y * dx <= u256_max()
        && dx * DEC <= u256_max() && y * DEC <= u256_max(),
{
    if x <= U128_MAX && y <= U128_MAX && dx <= U128_MAX && x + dx > 0 {
        assert(y * dx <= U128_MAX * U128_MAX) by (nonlinear_arith) requires y <= U128_MAX, dx <= U128_MAX;
        assert(dx * DEC <= U128_MAX * DEC) by (nonlinear_arith) requires dx <= U128_MAX;
        assert(y * DEC <= U128_MAX * DEC) by (nonlinear_arith) requires y <= U128_MAX;
        assert(U128_MAX * DEC <= u256_max()) by (compute);
        assert(U128_MAX * U128_MAX <= u256_max()) by (compute);
        assert(U128_MAX + U128_MAX <= u256_max()) by (compute);
        // (y*dx*DEC)/(x+dx) <= y*DEC  because y*dx*DEC <= y*DEC*(x+dx)
        let s = x + dx;
        assert((y * dx) * DEC <= (y * DEC) * s) by (nonlinear_arith) requires dx <= s;
        vstd::arithmetic::div_mod::lemma_div_is_ordered(((y * dx) * DEC) as int, ((y * DEC) * s) as int, s as int);
        vstd::arithmetic::div_mod::lemma_div_multiples_vanish((y * DEC) as int, s as int);
    }
}

pub proof fn lemma_pow10_pos(k: nat)
    ensures nat_pow(10, k) > 0,
    decreases k,
{
    if k > 0 {
        lemma_pow10_pos((k - 1) as nat);
        assert(10 * nat_pow(10, (k - 1) as nat) > 0) by (nonlinear_arith) requires nat_pow(10, (k - 1) as nat) > 0;
    }
}
/// converting a reserve to 18-decimals fixed point with precision p <= 18 and back is the identity
pub proof fn lemma_precision_round_trip(v: nat, p: nat)
    requires p <= 18,
    ensures dec_from_atomics(v, p) / nat_pow(10, (18 - p) as nat) == v,
{
    lemma_pow10_pos((18 - p) as nat);
    let d = nat_pow(10, (18 - p) as nat);
    assert(v * d == d * v) by (nonlinear_arith);
    vstd::arithmetic::div_mod::lemma_div_multiples_vanish(v as int, d as int);
}
pub proof fn lemma_asset_index_unique(p: PoolInfo, denom: Seq<char>, k: int)
    requires pool_wf(p), 0 <= k < p.assets@.len(), p.assets@[k].denom@ == denom,
    ensures has_asset(p, denom), asset_index(p, denom) == k,
{
    let i = asset_index(p, denom);
    if i < k { assert(p.assets@[i].denom@ != p.assets@[k].denom@); }
    if k < i { assert(p.assets@[k].denom@ != p.assets@[i].denom@); }
}

// (a * D * s / D) == a * s
pub proof fn lemma_mul_div_cancel(a: nat, s: nat, d: nat)
    requires d > 0,
    ensures ((a * d) * s) / d == a * s,
{
    assert((a * d) * s == (a * s) * d) by (nonlinear_arith);
    vstd::arithmetic::div_mod::lemma_div_multiples_vanish((a * s) as int, d as int);
}

/// amount <= u128::MAX and share <= 100%  =>  amount*10^18 and amount*share fit 256 bits
pub proof fn lemma_fee_fits(a: nat, s: nat)
    ensures a <= U128_MAX && s <= DEC ==> a * DEC <= u256_max() && a * s <= u256_max(),
{
    if a <= U128_MAX && s <= DEC {
        assert(a * s <= a * DEC) by (nonlinear_arith) requires s <= DEC;
        assert(a * DEC <= U128_MAX * DEC) by (nonlinear_arith) requires a <= U128_MAX;
        assert(U128_MAX * DEC <= u256_max()) by (compute);
    }
}

/// offer <= u128::MAX, bp >= 1 atomic  =>  offer * floor(10^36/bp) fits 256 bits (belief-price branch never overflows)
pub proof fn lemma_belief_fits(offer: nat, bp: nat)
    requires offer <= U128_MAX, bp > 0,
    ensures (offer * DEC) / bp <= u256_max(),
{
    vstd::arithmetic::div_mod::lemma_div_is_ordered_by_denominator((offer * DEC) as int, 1, bp as int);
    assert((offer * DEC) / 1 == offer * DEC);
    assert(offer * DEC <= U128_MAX * DEC) by (nonlinear_arith) requires offer <= U128_MAX;
    assert(U128_MAX * DEC <= u256_max()) by (compute);
}

// nested floor: floor(floor(n*D/m)/D) == floor(n/m)
// @lemma nested_floor [C03,C04,C12]
pub proof fn lemma_nested_floor(n: nat, m: nat, d: nat)
    requires m > 0, d > 0,
    ensures ((n * d) / m) / d == n / m,
{
    // (n*d/m)/d == (n*d)/(m*d) == n/m
    vstd::arithmetic::div_mod::lemma_div_denominator((n * d) as int, m as int, d as int);
    assert(m * d == d * m) by (nonlinear_arith);
    vstd::arithmetic::div_mod::lemma_div_multiples_vanish_quotient(d as int, n as int, m as int);
    assert(d * n == n * d) by (nonlinear_arith);
}

// @lemma fee_never_more_than_share [C04]
/// a fee never exceeds the amount it is taken from when share <= 100%
pub proof fn lemma_fee_le_amount(share: Decimal, amount: nat)
    requires share@ <= DEC,
    ensures fee_spec(share, amount) <= amount,
{
    assert(amount * share@ <= amount * DEC) by (nonlinear_arith) requires share@ <= DEC;
    vstd::arithmetic::div_mod::lemma_div_is_ordered((amount * share@) as int, (amount * DEC) as int, DEC as int);
    vstd::arithmetic::div_mod::lemma_div_multiples_vanish(amount as int, DEC as int);
}

// @lemma cp_k_monotone [C03,C01]
/// constant product: whatever part of the gross output leaves the pool, x*y does not decrease
pub proof fn lemma_cp_k_monotone(x: nat, y: nat, dx: nat, out: nat)
    requires x + dx > 0, out <= cp_gross(x, y, dx),
    ensures out <= y, (x + dx) * (y - out) >= x * y,
{
    let g = cp_gross(x, y, dx);
    let s = (x + dx) as int;
    vstd::arithmetic::div_mod::lemma_fundamental_div_mod((y * dx) as int, s);
    vstd::arithmetic::div_mod::lemma_mod_bound((y * dx) as int, s);
    assert(s * g <= y * dx);
    assert(g <= y) by (nonlinear_arith) requires s * g <= y * dx, s == x + dx, s > 0, g >= 0, y >= 0, dx >= 0, x >= 0;
    assert((x + dx) * (y - out) >= x * y) by (nonlinear_arith)
        requires s * g <= y * dx, s == x + dx, out <= g, g <= y;
}

// @lemma cp_round_trip_not_profitable [C03]
/// two successive constant-product swaps x->y then y->x on the same pool, with any retained fees,
/// never return more x than was put in: consequence of k-monotonicity.
pub proof fn lemma_cp_round_trip(x0: nat, y0: nat, dx: nat, out1: nat, out2: nat)
    requires
        x0 > 0, y0 > 0, dx > 0,
        out1 <= cp_gross(x0, y0, dx),
        // second swap offers out1 of y back into pool (x0+dx, y0-out1)
        out2 <= cp_gross((y0 - out1) as nat, x0 + dx, out1),
    ensures out2 <= dx,
{
    lemma_cp_k_monotone(x0, y0, dx, out1);
    let x1 = x0 + dx;
    let y1 = (y0 - out1) as nat;
    // out2 <= floor(x1*out1/(y1+out1)) = floor(x1*out1/y0)
    assert(y1 + out1 == y0);
    let g2 = cp_gross(y1, x1, out1);
    vstd::arithmetic::div_mod::lemma_fundamental_div_mod((x1 * out1) as int, y0 as int);
    vstd::arithmetic::div_mod::lemma_mod_bound((x1 * out1) as int, y0 as int);
    assert(y0 * g2 <= x1 * out1);
    // x1*y1 >= x0*y0  =>  x1*out1 = x1*y0 - x1*y1 <= x1*y0 - x0*y0 = dx*y0
    assert(x1 * out1 <= dx * y0) by (nonlinear_arith)
        requires x1 * y1 >= x0 * y0, y1 + out1 == y0, x1 == x0 + dx;
    assert(g2 <= dx) by (nonlinear_arith) requires y0 * g2 <= x1 * out1, x1 * out1 <= dx * y0, y0 > 0;
}

/// C13: the enforced swap limit. `max` is the caller's tolerance (1% when omitted) capped at 50%.
pub open spec fn eff_max_slippage(max_slippage: Option<Decimal>) -> nat {
    let m = match max_slippage { Some(d) => d@, None => 10_000_000_000_000_000nat };
    if m <= 500_000_000_000_000_000nat { m } else { 500_000_000_000_000_000nat }
}
/// without belief price: slippage/(return+slippage) (18-decimals floor) must not exceed max
pub open spec fn slippage_ok_no_belief(max_slippage: Option<Decimal>, ret: nat, slip: nat) -> bool {
    (slip * DEC) / (ret + slip) <= eff_max_slippage(max_slippage)
}
/// with belief price bp: expected = floor(offer * 10^18 / bp atomics), the exact floor of offer/bp (fix F11; before it the 18-decimals inverse of bp was used); accept iff ret >= expected or
/// (expected - ret)/expected (18-decimals floor) <= max
pub open spec fn belief_expected(bp: Decimal, offer: nat) -> nat {
    (offer * DEC) / bp@
}
pub open spec fn slippage_ok_belief(bp: Decimal, max_slippage: Option<Decimal>, offer: nat, ret: nat) -> bool {
    let e = belief_expected(bp, offer);
    ret >= e || (((e - ret) as nat * DEC) / e) <= eff_max_slippage(max_slippage)
}

// @lemma slippage_limit_monotone [C13]
/// a larger tolerance never rejects what a smaller one accepts
pub proof fn lemma_slippage_monotone(m1: Decimal, m2: Decimal, ret: nat, slip: nat)
    requires m1@ <= m2@, slippage_ok_no_belief(Some(m1), ret, slip),
    ensures slippage_ok_no_belief(Some(m2), ret, slip),
{
}


// ---------------------------------------------------------------- deposit slippage tolerance (C13)
pub uninterp spec fn compute_d_spec(amp: u64, deposits: Seq<Coin>) -> Option<Uint512>;
pub open spec fn no_zero_reserve(assets: Seq<Coin>) -> bool { forall|i: int| 0 <= i < assets.len() ==> (#[trigger] assets[i]).amount@ != 0 }
/// constant product: neither deposit ratio, shrunk by the tolerance, exceeds the corresponding pool ratio - compared exactly,
/// by cross-multiplication: d0/d1 * (1 - tol) <= p0/p1 and d1/d0 * (1 - tol) <= p1/p0 (fix F13; before it both sides were
/// 18-decimals floors of the ratios, which lose their significant digits when a ratio is tiny in base units)
pub open spec fn cp_deposit_ok(d0: nat, d1: nat, p0: nat, p1: nat, tol: nat) -> bool {
    !(d0 * ((DEC - tol) as nat) * p1 > p0 * d1 * DEC)
    && !(d1 * ((DEC - tol) as nat) * p0 > p1 * d0 * DEC)
}
/// stableswap, as coded: accepted iff (sqrt(D1)/sqrt(D0))^2 (18-decimals floors) does not exceed the tolerance
pub open spec fn ss_deposit_ok(d0_sqrt: nat, d1_sqrt: nat, tol: nat) -> bool {
    d0_sqrt > 0 && !((((d1_sqrt * DEC) / d0_sqrt) * ((d1_sqrt * DEC) / d0_sqrt)) / DEC > tol)
}

// @lemma cp_exact_proportion_accepted [C13]
/// a constant-product deposit in exact pool proportion is accepted under any valid tolerance
pub proof fn lemma_cp_exact_proportion(d0: nat, d1: nat, p0: nat, p1: nat, tol: nat)
    requires d0 > 0, d1 > 0, p0 > 0, p1 > 0, d0 * p1 == d1 * p0, tol <= DEC,
    ensures cp_deposit_ok(d0, d1, p0, p1, tol),
{
    let omt = (DEC - tol) as nat;
    assert(d0 * omt * p1 <= p0 * d1 * DEC) by (nonlinear_arith) requires d0 * p1 == d1 * p0, omt <= DEC;
    assert(d1 * omt * p0 <= p1 * d0 * DEC) by (nonlinear_arith) requires d0 * p1 == d1 * p0, omt <= DEC;
}
proof fn lemma_ratio_eq(a: nat, b: nat, c: nat, d: nat)
    requires b > 0, d > 0, a * d == b * c || a * d == c * b,
    ensures (a * DEC) / b == (c * DEC) / d,
{
    // (a*DEC)/b == (a*DEC*d)/(b*d) == (c*DEC*b)/(d*b) == (c*DEC)/d
    vstd::arithmetic::div_mod::lemma_div_multiples_vanish_quotient(d as int, (a * DEC) as int, b as int);
    vstd::arithmetic::div_mod::lemma_div_multiples_vanish_quotient(b as int, (c * DEC) as int, d as int);
    assert(d * (a * DEC) == b * (c * DEC)) by (nonlinear_arith) requires a * d == b * c || a * d == c * b;
    assert(d * b == b * d) by (nonlinear_arith);
}
proof fn lemma_shrink_le(r: nat, tol: nat)
    requires tol <= DEC,
    ensures (r * ((DEC - tol) as nat)) / DEC <= r,
{
    assert(r * ((DEC - tol) as nat) <= r * DEC) by (nonlinear_arith) requires tol <= DEC;
    vstd::arithmetic::div_mod::lemma_div_is_ordered((r * ((DEC - tol) as nat)) as int, (r * DEC) as int, DEC as int);
    vstd::arithmetic::div_mod::lemma_div_multiples_vanish(r as int, DEC as int);
}

// @lemma cp_tolerance_monotone [C13]
/// within the valid range a larger tolerance never rejects what a smaller one accepts
pub proof fn lemma_cp_tolerance_monotone(d0: nat, d1: nat, p0: nat, p1: nat, t1: nat, t2: nat)
    requires t1 <= t2, t2 <= DEC, cp_deposit_ok(d0, d1, p0, p1, t1),
    ensures cp_deposit_ok(d0, d1, p0, p1, t2),
{
    let a1 = (DEC - t1) as nat; let a2 = (DEC - t2) as nat;
    assert(d0 * a2 * p1 <= d0 * a1 * p1) by (nonlinear_arith) requires a2 <= a1;
    assert(d1 * a2 * p0 <= d1 * a1 * p0) by (nonlinear_arith) requires a2 <= a1;
}

// @lemma cp_deposit_ratio_bound_is_the_stated_one [C13]
/// C13: "a constant-product deposit with a slippage tolerance is accepted only if the deposit ratio is within that tolerance
/// of the pool ratio": in both directions, deposit ratio * (1 - tol) <= pool ratio, as exact rationals
pub proof fn lemma_cp_deposit_bound(d0: nat, d1: nat, p0: nat, p1: nat, tol: nat)
    requires tol <= DEC, d1 > 0, d0 > 0, p0 > 0, p1 > 0, cp_deposit_ok(d0, d1, p0, p1, tol),
    ensures
        d0 * ((DEC - tol) as nat) * p1 <= p0 * d1 * DEC,
        d1 * ((DEC - tol) as nat) * p0 <= p1 * d0 * DEC,
{
}

// @lemma ss_deposit_tolerance_usable [C13]
/// C13 ("protections are usable on every pool type"): a stableswap deposit that grows the invariant (D1 >= D0, as every
/// deposit does) must be acceptable under SOME valid tolerance below 100%. With the coded predicate this is false:
/// the ratio (D1/D0) is >= 1, so it exceeds every tolerance < 1 and the deposit is always rejected (finding F4a).
pub proof fn lemma_ss_deposit_tolerance_usable(d0_sqrt: nat, d1_sqrt: nat, tol: nat)
    requires d0_sqrt > 0, d1_sqrt >= d0_sqrt, tol == 999_999_999_999_999_999nat,
    ensures ss_deposit_ok(d0_sqrt, d1_sqrt, tol),
{
}

} // verus!
