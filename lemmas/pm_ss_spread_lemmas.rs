// The stableswap spread as compute_swap computes it (a formula read off the code; nothing is claimed about its meaning -
// see DESIGN.md F4b - it is pinned so that an accidental change of a precision argument is noticed). Only unit pm_math loads this.
verus! {
/// offer and return are brought to the widest precision `mp` of the pool, subtracted (saturating), and the difference is
/// brought back to the offer asset's precision `op`; `ap` is the ask asset's precision, `gross` the return before fees
pub open spec fn ss_spread_spec(offer: nat, op: nat, gross: nat, ap: nat, mp: nat) -> nat {
    let adj_ret = (gross * DEC) / nat_pow(10, (18 - (mp - ap)) as nat);
    let adj_off = dec_from_atomics(offer, op) / nat_pow(10, (18 - mp) as nat);
    let raw = if adj_off >= adj_ret { (adj_off - adj_ret) as nat } else { 0 };
    if op < mp { dec_from_atomics(raw, (mp - op) as nat) / DEC } else { raw }
}
/// a sequence of u8 has at most one maximum value
pub proof fn lemma_seq_max_unique(s: Seq<u8>, a: u8, b: u8)
    requires seq_max_u8(s, a), seq_max_u8(s, b),
    ensures a == b,
{
    let i = choose|k: int| 0 <= k < s.len() && s[k] == a;
    let j = choose|k: int| 0 <= k < s.len() && s[k] == b;
    assert(s[i] <= b);
    assert(s[j] <= a);
}
} // verus!
