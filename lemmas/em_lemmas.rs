// spec functions and lemmas for unit em (C18), taken from the property statement:
//   id(now) = floor((now - genesis)/duration);  start(id) = genesis + id*duration
verus! {

pub open spec fn now_s(env: Env) -> nat { (env.block.time.nanos as nat) / 1_000_000_000 }
pub open spec fn epoch_start_s(c: EpochConfig, id: nat) -> nat { c.genesis_epoch@ + id * c.duration@ }
pub open spec fn epoch_id_at(c: EpochConfig, now: nat) -> nat { ((now - c.genesis_epoch@) / (c.duration@ as int)) as nat }
pub open spec fn ownership_unchanged(a: Storage, b: Storage) -> bool {
    a.owner == b.owner && a.pending_owner == b.pending_owner && a.pending_expiry == b.pending_expiry
}
/// state invariant of the epoch manager: a stored configuration has duration >= 1 day
pub open spec fn em_inv(s: Storage) -> bool {
    s.config@ is Some ==> s.config@->Some_0.epoch_config.duration@ >= 86400
}

/// (nanos - g*1e9)/1e9 == nanos/1e9 - g   when g <= nanos/1e9
pub proof fn lemma_seconds_since(nanos: nat, g: nat)
    ensures g <= nanos / 1_000_000_000 ==> g * 1_000_000_000 <= nanos
        && ((nanos - g * 1_000_000_000) as nat) / 1_000_000_000 == nanos / 1_000_000_000 - g,
{
    if g <= nanos / 1_000_000_000 {
        assert(g * 1_000_000_000 <= nanos && ((nanos - g * 1_000_000_000) as nat) / 1_000_000_000 == nanos / 1_000_000_000 - g)
            by (nonlinear_arith) requires g <= nanos / 1_000_000_000;
    }
}

// @lemma now_in_epoch [C18]
pub proof fn lemma_now_in_epoch(g: nat, d: nat, t: nat)
    ensures d > 0 && g <= t ==> ({
        let id = ((t - g) / (d as int)) as nat;
        g + id * d <= t && t < g + (id + 1) * d && id * d <= t - g
    }),
{
    if d > 0 && g <= t {
        let x = (t - g) as int;
        let dd = d as int;
        vstd::arithmetic::div_mod::lemma_fundamental_div_mod(x, dd);
        vstd::arithmetic::div_mod::lemma_mod_bound(x, dd);
        let q = x / dd;
        assert(x == dd * q + x % dd);
        assert(q >= 0) by { vstd::arithmetic::div_mod::lemma_div_pos_is_pos(x, dd); }
        assert(dd * q == q * dd) by (nonlinear_arith);
        assert((q + 1) * dd == q * dd + dd) by (nonlinear_arith);
    }
}

// @lemma epoch_id_monotone [C18]
pub proof fn lemma_epoch_id_monotone(g: nat, d: nat, t1: nat, t2: nat)
    requires d > 0, g <= t1, t1 <= t2,
    ensures (t1 - g) / (d as int) <= (t2 - g) / (d as int),
{
    let a = (t1 - g) as nat;
    let b = (t2 - g) as nat;
    assert(a / d <= b / d) by (nonlinear_arith) requires a <= b, d > 0;
}

// @lemma epoch_id_step [C18]
pub proof fn lemma_epoch_id_step(g: nat, d: nat, t: nat)
    requires d > 0, g <= t,
    ensures (t + d - g) / (d as int) == (t - g) / (d as int) + 1,
{
    let a = (t - g) as nat;
    assert((a + d) / d == a / d + 1) by (nonlinear_arith) requires d > 0;
}

// @lemma epoch_starts_partition [C18]
/// consecutive epochs tile the time line: start(id+1) = start(id) + duration
pub proof fn lemma_epoch_starts_partition(c: EpochConfig, id: nat)
    ensures epoch_start_s(c, id + 1) == epoch_start_s(c, id) + c.duration@,
{
    assert((id + 1) * c.duration@ == id * c.duration@ + c.duration@) by (nonlinear_arith);
}

} // verus!
