// C12, last sentence of the property: "On constant-product pools the ReverseSimulation quote is at most one smallest unit
// short: offering one unit more than quoted always yields at least the requested amount."  Proved over the formulas the
// real functions are pinned to (compute_offer_amount: reverse_offer_spec / reverse_gross_exact_spec; compute_swap: cp_gross;
// compute_fees: fee_spec per share). Kept in its own file: only unit pm_math loads it.
verus! {

pub proof fn lemma_fee_floor(share: Decimal, g: nat)
    ensures fee_spec(share, g) * DEC <= g * share@,
{
    vstd::arithmetic::div_mod::lemma_fundamental_div_mod((g * share@) as int, DEC as int);
    vstd::arithmetic::div_mod::lemma_mod_bound((g * share@) as int, DEC as int);
    assert(fee_spec(share, g) * DEC == DEC * ((g * share@) / DEC)) by (nonlinear_arith)
        requires fee_spec(share, g) == (g * share@) / DEC;
}

pub proof fn lemma_extra_fees_bound(fees: Seq<Fee>, g: nat, n: nat)
    requires n <= fees.len(),
    ensures extra_fees_sum(fees, g, n) * DEC <= g * extra_shares_sum(fees, n),
    decreases n,
{
    if n > 0 {
        lemma_extra_fees_bound(fees, g, (n - 1) as nat);
        lemma_fee_floor(fees[n - 1].share, g);
        let a = extra_fees_sum(fees, g, (n - 1) as nat);
        let b = fee_spec(fees[n - 1].share, g);
        let sa = extra_shares_sum(fees, (n - 1) as nat);
        let sb = fees[n - 1].share@;
        assert(extra_fees_sum(fees, g, n) == a + b);
        assert(extra_shares_sum(fees, n) == sa + sb);
        assert((a + b) * DEC <= g * (sa + sb)) by (nonlinear_arith)
            requires a * DEC <= g * sa, b * DEC <= g * sb;
    }
}

/// the fees a forward swap deducts never exceed the configured total share of the gross output
pub proof fn lemma_total_fees_bound(f: PoolFee, g: nat)
    ensures total_fees(f, g) * DEC <= g * total_share(f),
{
    lemma_fee_floor(f.swap_fee.share, g);
    lemma_fee_floor(f.protocol_fee.share, g);
    lemma_fee_floor(f.burn_fee.share, g);
    lemma_extra_fees_bound(f.extra_fees@, g, f.extra_fees@.len());
    let a = fee_spec(f.swap_fee.share, g); let b = fee_spec(f.protocol_fee.share, g); let c = fee_spec(f.burn_fee.share, g);
    let e = extra_fees_sum(f.extra_fees@, g, f.extra_fees@.len());
    let sa = f.swap_fee.share@; let sb = f.protocol_fee.share@; let sc = f.burn_fee.share@;
    let se = extra_shares_sum(f.extra_fees@, f.extra_fees@.len());
    assert((a + b + c + e) * DEC <= g * (sa + sb + sc + se)) by (nonlinear_arith)
        requires a * DEC <= g * sa, b * DEC <= g * sb, c * DEC <= g * sc, e * DEC <= g * se;
}

/// what a forward swap of (reverse quote + 1) on reserves (x, y) returns after all fees is at least `ask`
pub open spec fn quote_plus_one_returns_at_least_the_ask(x: nat, y: nat, ask: nat, f: PoolFee) -> bool {
    let o = reverse_offer_spec(x, y, ask, total_share(f));
    let gross = cp_gross(x, y, o + 1);
    gross >= total_fees(f, gross) && gross - total_fees(f, gross) >= ask
}

// @lemma cp_reverse_quote_plus_one_suffices [C12]
/// C12: offering one unit more than the reverse quote always yields at least the requested amount (any reserves, any fees
/// below 100%, any ask the pool can serve).
pub proof fn lemma_cp_reverse_quote_plus_one_suffices(x: nat, y: nat, ask: nat, f: PoolFee)
    requires
        x > 0,
        total_share(f) < DEC,
        y > reverse_gross_exact_spec(ask, total_share(f)) + 1,
    ensures quote_plus_one_returns_at_least_the_ask(x, y, ask, f),
{
    let fs = total_share(f);
    let d = (DEC - fs) as nat;
    let g = reverse_gross_exact_spec(ask, fs);
    let den = (y - g - 1) as nat;
    let q = (1 * (x * y)) / den;
    // (g+1)*d > ask*DEC: g is the floor of ask*DEC/d
    vstd::arithmetic::div_mod::lemma_fundamental_div_mod((ask * DEC) as int, d as int);
    vstd::arithmetic::div_mod::lemma_mod_bound((ask * DEC) as int, d as int);
    let r = ((ask * DEC) % d) as nat;
    // this is the step that needs the gross amount to be the exact floor of ask/(1 - fees)
    assert(g == (ask * DEC) / d);
    assert((g + 1) * d > ask * DEC) by (nonlinear_arith)
        requires ask * DEC == d * g + r, r < d;
    // q = floor(x*y/den): q*den <= x*y < (q+1)*den, and q >= x because den <= y
    vstd::arithmetic::div_mod::lemma_fundamental_div_mod((x * y) as int, den as int);
    vstd::arithmetic::div_mod::lemma_mod_bound((x * y) as int, den as int);
    assert(1 * (x * y) == x * y);
    assert(den * q <= x * y && x * y < den * q + den);
    assert(q >= x) by (nonlinear_arith) requires x * y < den * q + den, den <= y, den > 0, x > 0;
    let o = (q - x) as nat;
    assert(o == reverse_offer_spec(x, y, ask, fs));
    let dx = o + 1;
    let gross = cp_gross(x, y, dx);
    assert(x + dx == q + 1);
    // y*dx > (g+1)*(q+1)
    assert(y * dx > (g + 1) * (q + 1)) by (nonlinear_arith)
        requires x * y < den * q + den, den == y - g - 1, dx == q + 1 - x, q >= x, y > g + 1;
    vstd::arithmetic::div_mod::lemma_fundamental_div_mod((y * dx) as int, (q + 1) as int);
    vstd::arithmetic::div_mod::lemma_mod_bound((y * dx) as int, (q + 1) as int);
    assert(gross == (y * dx) / (q + 1));
    assert(gross >= g + 1) by (nonlinear_arith)
        requires y * dx > (g + 1) * (q + 1), y * dx == (q + 1) * gross + ((y * dx) % (q + 1)), ((y * dx) % (q + 1)) < q + 1;
    lemma_total_fees_bound(f, gross);
    let tf = total_fees(f, gross);
    assert(tf <= gross) by (nonlinear_arith) requires tf * DEC <= gross * fs, fs < DEC, DEC > 0;
    assert((gross - tf) * DEC > ask * DEC) by (nonlinear_arith)
        requires tf * DEC <= gross * fs, d == DEC - fs, fs < DEC, gross >= g + 1, (g + 1) * d > ask * DEC, tf <= gross;
    assert(gross - tf > ask) by (nonlinear_arith) requires (gross - tf) * DEC > ask * DEC;
}

} // verus!
