// C12, refusal side of a route quote: SimulateSwapOperations may answer with an error only when the route is empty, when
// the quote of some hop (on the amounts simulated so far) fails, or - with every hop quoted - when aggregating the fee
// lists overflows. Only unit pm_swap loads this file.
verus! {
/// the single-hop quote for `amount` through `op` fails: the pool is not stored or the swap computation errors
pub open spec fn hop_quote_fails(s: Storage, op: SwapOperation, amount: Uint128) -> bool {
    !s.pools@.dom().contains(op_pool(op))
    || compute_swap_fn(s.pools@[op_pool(op)], Coin { denom: Str { v: Ghost(op_in(op)) }, amount: amount }, op_out(op)) is Err
}
pub open spec fn route_quote_refusal_explained(s: Storage, offer: Uint128, ops: Seq<SwapOperation>) -> bool {
    ops.len() == 0
    || (exists|i: int, amts: Seq<Uint128>| 0 <= i < ops.len() && #[trigger] sim_seq(s, offer, ops, i as nat, amts) && hop_quote_fails(s, ops[i], amts[i]))
    || (exists|amts: Seq<Uint128>| #[trigger] sim_seq(s, offer, ops, ops.len(), amts))
}
} // verus!
