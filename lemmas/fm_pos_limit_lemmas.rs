// spec helper used only by unit fm_pos (kept out of fm_pos_lemmas.rs, which other units import): C08, C07, C10
verus! {
pub open spec fn pos_id_at(v: Seq<Position>, i: int) -> Seq<char> { v[i].identifier@ }
/// C08: the receiver has fewer than ten positions in the given open/closed state: all of them fit in a list of fewer than ten
pub open spec fn fewer_than_ten_positions(s: Storage, receiver: Seq<char>, open: bool) -> bool {
    exists|v: Seq<Position>| #![trigger v.len()] v.len() < 10 && forall|id: Seq<char>| is_position_of(s, receiver, Some(open), id)
        ==> exists|i: int| 0 <= i < v.len() && #[trigger] pos_id_at(v, i) == id
}
} // verus!
