// bridge between the contract of get_latest_address_weight proved in unit fm_state (three clauses over the real body) and the
// clause unit fm_pos assumes for it (value == latest_weight); loaded by fm_pos only: C10, C06, C07
verus! {
/// what unit fm_state proves about the pair (epoch, weight) returned by get_latest_address_weight (clauses
/// latest_snapshot_is_the_greatest_epoch and zero_when_no_snapshot of contracts/fm_state.spec, same text)
pub open spec fn latest_snapshot_result(s: Storage, a: Seq<char>, lp: Seq<char>, e0: u64, w: Uint128) -> bool {
    ((exists|e: u64| has_weight(s, a, lp, e))
        ==> has_weight(s, a, lp, e0) && s.weights@[(a, lp, e0)] == w && forall|e: u64| has_weight(s, a, lp, e) ==> e <= e0)
    && ((forall|e: u64| !has_weight(s, a, lp, e)) ==> e0 == 0 && w@ == 0)
}
// @lemma proved_result_of_get_latest_address_weight_is_latest_weight [C10,C06,C07]
/// the result proved in fm_state is the `latest_weight` this unit assumes for the same function
pub proof fn lemma_latest_snapshot_is_latest_weight(s: Storage, a: Seq<char>, lp: Seq<char>, e0: u64, w: Uint128)
    requires latest_snapshot_result(s, a, lp, e0, w),
    ensures w@ == latest_weight(s, a, lp),
{
    if exists|e: u64| has_weight(s, a, lp, e) {
        lemma_latest_is(s, a, lp, e0);
    }
}
} // verus!
