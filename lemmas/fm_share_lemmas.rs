// C06, first sentence: "For every farm and every epoch, the rewards paid to all users for that epoch sum to at most that
// epoch's emission". One user's payout for an epoch is floor(emission * weight / total) (epoch_reward in fm_rewards, the
// formula calculate_rewards is pinned to); the statement over ALL users is this lemma. Its premise - the users' weights
// in effect sum to at most the recorded total - is what C10 states; finding F2 shows where the code can break that premise.
verus! {
pub open spec fn nat_seq_sum(ws: Seq<nat>) -> nat decreases ws.len() {
    if ws.len() == 0 { 0 } else { nat_seq_sum(ws.drop_last()) + ws.last() }
}
/// what all users together are paid for one epoch of one farm
pub open spec fn epoch_payouts_sum(emission: nat, ws: Seq<nat>, total: nat) -> nat decreases ws.len() {
    if ws.len() == 0 { 0 } else { epoch_payouts_sum(emission, ws.drop_last(), total) + (emission * ws.last()) / total }
}
proof fn lemma_payouts_scaled(emission: nat, ws: Seq<nat>, total: nat)
    requires total > 0,
    ensures epoch_payouts_sum(emission, ws, total) * total <= emission * nat_seq_sum(ws),
    decreases ws.len(),
{
    if ws.len() == 0 {
        assert(epoch_payouts_sum(emission, ws, total) == 0);
        assert(0 * total == 0) by (nonlinear_arith);
    } else {
        lemma_payouts_scaled(emission, ws.drop_last(), total);
        let w = ws.last();
        let q = (emission * w) / total;
        vstd::arithmetic::div_mod::lemma_fundamental_div_mod((emission * w) as int, total as int);
        vstd::arithmetic::div_mod::lemma_mod_bound((emission * w) as int, total as int);
        assert(q * total <= emission * w) by (nonlinear_arith) requires emission * w == total * q + (emission * w) % total, (emission * w) % total >= 0;
        let a = epoch_payouts_sum(emission, ws.drop_last(), total);
        let sa = nat_seq_sum(ws.drop_last());
        assert((a + q) * total <= emission * (sa + w)) by (nonlinear_arith) requires a * total <= emission * sa, q * total <= emission * w;
        assert(epoch_payouts_sum(emission, ws, total) == a + q);
        assert(nat_seq_sum(ws) == sa + w);
    }
}
// @lemma epoch_payouts_of_all_users_within_the_emission [C06]
/// C06: with the users' weights summing to at most the total weight, one epoch of a farm never pays out more than its emission
pub proof fn lemma_epoch_payouts_within_emission(emission: nat, ws: Seq<nat>, total: nat)
    requires total > 0, nat_seq_sum(ws) <= total,
    ensures epoch_payouts_sum(emission, ws, total) <= emission,
{
    lemma_payouts_scaled(emission, ws, total);
    let p = epoch_payouts_sum(emission, ws, total);
    let s = nat_seq_sum(ws);
    assert(p <= emission) by (nonlinear_arith) requires p * total <= emission * s, s <= total, total > 0;
}
} // verus!
