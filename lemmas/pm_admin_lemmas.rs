// spec functions and lemmas for pool creation / configuration (C15, C16, C17)
verus! {
pub open spec fn fee_lt_one(f: Fee) -> bool { f.share@ < DEC }
/// C16: "fees each below 100% and at most 20% in total"
pub open spec fn pool_fee_valid(f: PoolFee) -> bool {
    fee_lt_one(f.protocol_fee) && fee_lt_one(f.swap_fee) && fee_lt_one(f.burn_fee)
    && (forall|i: int| 0 <= i < f.extra_fees@.len() ==> fee_lt_one(#[trigger] f.extra_fees@[i]))
    && f.protocol_fee.share@ + f.swap_fee.share@ + f.burn_fee.share@ + shares_sum(f.extra_fees@, f.extra_fees@.len()) <= 200_000_000_000_000_000
}
pub open spec fn shares_sum(fees: Seq<Fee>, n: nat) -> nat
    decreases n
{
    if n == 0 || n > fees.len() { 0 } else { shares_sum(fees, (n - 1) as nat) + fees[n - 1].share@ }
}
} // verus!
verus! {
/// token-factory fee of denom d (the fee list has one coin per denom)
pub open spec fn tf_fee_of(tf: Seq<Coin>, d: Seq<char>) -> nat { coin_sum(tf, d) }
/// C16: exactly the pool creation fee plus the token-factory fees
pub open spec fn required_funds(pcf: Coin, tf: Seq<Coin>, d: Seq<char>) -> nat {
    (if pcf.denom@ == d { pcf.amount@ } else { 0 }) + coin_sum(tf, d)
}
/// every entry of `total` is (a denom, the amount attached for it) and `total` starts with the pool-fee denom
pub open spec fn fee_entries_ok(total: Seq<Coin>, funds: Seq<Coin>, pcf: Coin, tf: Seq<Coin>) -> bool {
    total.len() >= 1 && total[0].denom@ == pcf.denom@
    && (forall|i: int| 0 <= i < total.len() ==> (#[trigger] total[i]).amount@ == coin_sum(funds, total[i].denom@)
        && total[i].amount@ == required_funds(pcf, tf, total[i].denom@))
}
/// the attached coin k is accounted for by an entry of `total` carrying the whole amount attached in that denom
pub open spec fn fund_has_entry(total: Seq<Coin>, funds: Seq<Coin>, k: int) -> bool {
    exists|i: int| 0 <= i < total.len() && (#[trigger] total[i]).denom@ == funds[k].denom@ && total[i].amount@ == coin_sum(funds, funds[k].denom@)
}
/// C16: explicit identifiers get the prefix "o.", generated ones "p." followed by the incremented counter
pub open spec fn new_pool_id(pool_identifier: Option<Str>, counter: Option<u64>) -> Seq<char> {
    match pool_identifier {
        Some(i) => "o."@ + i@,
        None => "p."@ + u64_str((counter->Some_0 + 1) as u64),
    }
}
pub open spec fn new_pool_record(p: PoolInfo, identifier: Seq<char>, contract: Seq<char>, asset_denoms: Seq<Str>, asset_decimals: Seq<u8>, pool_fees: PoolFee, pool_type: PoolType) -> bool {
    p.pool_identifier@ == identifier
    && p.lp_denom@ == ("factory"@ + "/"@ + contract + "/"@) + (identifier + "."@ + "LP"@)
    && p.asset_decimals@ == asset_decimals && p.pool_fees == pool_fees && p.pool_type == pool_type
    && p.asset_denoms@.len() == asset_denoms.len() && p.assets@.len() == asset_denoms.len()
    && (forall|i: int| 0 <= i < asset_denoms.len() ==> (#[trigger] p.asset_denoms@[i])@ == asset_denoms[i]@)
    && (forall|i: int| 0 <= i < asset_denoms.len() ==> (#[trigger] p.assets@[i]).denom@ == asset_denoms[i]@ && p.assets@[i].amount@ == 0)
    && p.status.swaps_enabled && p.status.deposits_enabled && p.status.withdrawals_enabled
}
pub open spec fn create_denom_msg(m: CosmosMsg, contract: Seq<char>, subdenom: Seq<char>) -> bool {
    match m { CosmosMsg::Tf(TfMsg::CreateDenom { sender, subdenom: s }) => sender@ == contract && s@ == subdenom, _ => false }
}
pub open spec fn strs_distinct(s: Seq<Str>) -> bool { forall|i: int, j: int| 0 <= i < j < s.len() ==> (#[trigger] s[i])@ != (#[trigger] s[j])@ }

/// if some value occurs twice, filtering by equality to it keeps at least two elements
pub proof fn lemma_dup_count(s: Seq<Str>, p: spec_fn(Str) -> bool, i: int, j: int)
    requires 0 <= i < j < s.len(), p(s[i]), p(s[j]),
    ensures s.filter(p).len() >= 2,
    decreases s.len(),
{
    reveal(Seq::filter);
    let t = s.drop_last();
    if j == s.len() - 1 {
        // s[i] is kept in the prefix
        lemma_one_count(t, p, i);
        assert(s.filter(p) == t.filter(p).push(s.last()));
    } else {
        assert(t[i] == s[i]); assert(t[j] == s[j]);
        lemma_dup_count(t, p, i, j);
        if p(s.last()) { assert(s.filter(p) == t.filter(p).push(s.last())); } else { assert(s.filter(p) == t.filter(p)); }
    }
}
pub proof fn lemma_one_count(s: Seq<Str>, p: spec_fn(Str) -> bool, i: int)
    requires 0 <= i < s.len(), p(s[i]),
    ensures s.filter(p).len() >= 1,
    decreases s.len(),
{
    reveal(Seq::filter);
    let t = s.drop_last();
    if i == s.len() - 1 {
        assert(s.filter(p) == t.filter(p).push(s.last()));
    } else {
        assert(t[i] == s[i]);
        lemma_one_count(t, p, i);
        if p(s.last()) { assert(s.filter(p) == t.filter(p).push(s.last())); } else { assert(s.filter(p) == t.filter(p)); }
    }
}
} // verus!
