// spec functions and lemmas for pool creation / configuration (C15, C16, C17)
verus! {
pub open spec fn fee_lt_one(f: Fee) -> bool { f.share@ < DEC }
/// C16: "fees each below 100% and at most 20% in total"
pub open spec fn pool_fee_valid(f: PoolFee) -> bool {
    fee_lt_one(f.protocol_fee) && fee_lt_one(f.swap_fee) && fee_lt_one(f.burn_fee)
    && (forall|i: int| 0 <= i < f.extra_fees@.len() ==> fee_lt_one(#[trigger] f.extra_fees@[i]))
    && f.protocol_fee.share@ + f.swap_fee.share@ + f.burn_fee.share@ + shares_sum(f.extra_fees@, f.extra_fees@.len()) <= 200_000_000_000_000_000
}
pub open spec fn shares_sum(fees: Seq<Fee>, n: nat) -> nat
    decreases n
{
    if n == 0 || n > fees.len() { 0 } else { shares_sum(fees, (n - 1) as nat) + fees[n - 1].share@ }
}
} // verus!
verus! {
/// token-factory fee of denom d (the fee list has one coin per denom)
pub open spec fn tf_fee_of(tf: Seq<Coin>, d: Seq<char>) -> nat { coin_sum(tf, d) }
/// C16: exactly the pool creation fee plus the token-factory fees
pub open spec fn required_funds(pcf: Coin, tf: Seq<Coin>, d: Seq<char>) -> nat {
    (if pcf.denom@ == d { pcf.amount@ } else { 0 }) + coin_sum(tf, d)
}
/// every entry of `total` is (a denom, the amount attached for it) and `total` starts with the pool-fee denom
pub open spec fn fee_entries_ok(total: Seq<Coin>, funds: Seq<Coin>, pcf: Coin, tf: Seq<Coin>) -> bool {
    total.len() >= 1 && total[0].denom@ == pcf.denom@
    && (forall|i: int| 0 <= i < total.len() ==> (#[trigger] total[i]).amount@ == coin_sum(funds, total[i].denom@)
        && total[i].amount@ == required_funds(pcf, tf, total[i].denom@))
}
/// the attached coin k is accounted for by an entry of `total` carrying the whole amount attached in that denom
pub open spec fn fund_has_entry(total: Seq<Coin>, funds: Seq<Coin>, k: int) -> bool {
    exists|i: int| 0 <= i < total.len() && (#[trigger] total[i]).denom@ == funds[k].denom@ && total[i].amount@ == coin_sum(funds, funds[k].denom@)
}
/// C16: explicit identifiers get the prefix "o.", generated ones "p." followed by the incremented counter
pub open spec fn new_pool_id(pool_identifier: Option<Str>, counter: Option<u64>) -> Seq<char> {
    match pool_identifier {
        Some(i) => "o."@ + i@,
        None => "p."@ + u64_str((counter->Some_0 + 1) as u64),
    }
}
pub open spec fn new_pool_record(p: PoolInfo, identifier: Seq<char>, contract: Seq<char>, asset_denoms: Seq<Str>, asset_decimals: Seq<u8>, pool_fees: PoolFee, pool_type: PoolType) -> bool {
    p.pool_identifier@ == identifier
    && p.lp_denom@ == ("factory"@ + "/"@ + contract + "/"@) + (identifier + "."@ + "LP"@)
    && p.asset_decimals@ == asset_decimals && p.pool_fees == pool_fees && p.pool_type == pool_type
    && p.asset_denoms@.len() == asset_denoms.len() && p.assets@.len() == asset_denoms.len()
    && (forall|i: int| 0 <= i < asset_denoms.len() ==> (#[trigger] p.asset_denoms@[i])@ == asset_denoms[i]@)
    && (forall|i: int| 0 <= i < asset_denoms.len() ==> (#[trigger] p.assets@[i]).denom@ == asset_denoms[i]@ && p.assets@[i].amount@ == 0)
    && p.status.swaps_enabled && p.status.deposits_enabled && p.status.withdrawals_enabled
}
pub open spec fn create_denom_msg(m: CosmosMsg, contract: Seq<char>, subdenom: Seq<char>) -> bool {
    match m { CosmosMsg::Tf(TfMsg::CreateDenom { sender, subdenom: s }) => sender@ == contract && s@ == subdenom, _ => false }
}
pub open spec fn strs_distinct(s: Seq<Str>) -> bool { forall|i: int, j: int| 0 <= i < j < s.len() ==> (#[trigger] s[i])@ != (#[trigger] s[j])@ }

/// if some value occurs twice, filtering by equality to it keeps at least two elements
pub proof fn lemma_dup_count(s: Seq<Str>, p: spec_fn(Str) -> bool, i: int, j: int)
    requires 0 <= i < j < s.len(), p(s[i]), p(s[j]),
    ensures s.filter(p).len() >= 2,
    decreases s.len(),
{
    reveal(Seq::filter);
    let t = s.drop_last();
    if j == s.len() - 1 {
        // s[i] is kept in the prefix
        lemma_one_count(t, p, i);
        assert(s.filter(p) == t.filter(p).push(s.last()));
    } else {
        assert(t[i] == s[i]); assert(t[j] == s[j]);
        lemma_dup_count(t, p, i, j);
        if p(s.last()) { assert(s.filter(p) == t.filter(p).push(s.last())); } else { assert(s.filter(p) == t.filter(p)); }
    }
}
pub proof fn lemma_one_count(s: Seq<Str>, p: spec_fn(Str) -> bool, i: int)
    requires 0 <= i < s.len(), p(s[i]),
    ensures s.filter(p).len() >= 1,
    decreases s.len(),
{
    reveal(Seq::filter);
    let t = s.drop_last();
    if i == s.len() - 1 {
        assert(s.filter(p) == t.filter(p).push(s.last()));
    } else {
        assert(t[i] == s[i]);
        lemma_one_count(t, p, i);
        if p(s.last()) { assert(s.filter(p) == t.filter(p).push(s.last())); } else { assert(s.filter(p) == t.filter(p)); }
    }
}

/// entry i >= 1 of the fee list: a token-factory fee in another denom than the pool creation fee, paid exactly
pub open spec fn tf_entry_ok(total: Seq<Coin>, funds: Seq<Coin>, pcf: Coin, tf: Seq<Coin>, i: int) -> bool {
    exists|k: int| 0 <= k < tf.len() && (#[trigger] tf[k]).denom@ == total[i].denom@ && tf[k].denom@ != pcf.denom@
        && total[i].amount@ == tf[k].amount@ && coin_sum(funds, tf[k].denom@) == tf[k].amount@
}
pub open spec fn tf_paid(funds: Seq<Coin>, pcf: Coin, tf: Seq<Coin>, k: int) -> bool {
    tf[k].denom@ != pcf.denom@ ==> coin_sum(funds, tf[k].denom@) == tf[k].amount@
}
pub open spec fn fees_list_ok(total: Seq<Coin>, funds: Seq<Coin>, pcf: Coin, tf: Seq<Coin>, n_tf_checked: int) -> bool {
    total.len() >= 1 && total[0].denom@ == pcf.denom@ && total[0].amount@ == coin_sum(funds, pcf.denom@)
    && (forall|i: int| 1 <= i < total.len() ==> #[trigger] tf_entry_ok(total, funds, pcf, tf, i))
    && (forall|k: int| 0 <= k < n_tf_checked ==> #[trigger] tf_paid(funds, pcf, tf, k))
}
pub proof fn lemma_coin_sum_distinct_bound(s: Seq<Coin>, d: Seq<char>)
    requires denoms_distinct(s),
    ensures coin_sum(s, d) <= U128_MAX,
{
    if has_denom(s, d) {
        let j = choose|j: int| 0 <= j < s.len() && #[trigger] s[j].denom@ == d;
        lemma_coin_sum_distinct(s, j);
    } else {
        lemma_coin_sum_absent(s, d);
    }
}
pub proof fn lemma_fees_list_push(total: Seq<Coin>, funds: Seq<Coin>, pcf: Coin, tf: Seq<Coin>, n: int, c: Coin)
    requires fees_list_ok(total, funds, pcf, tf, n), 0 <= n < tf.len(),
        tf[n].denom@ != pcf.denom@ ==> (c.denom@ == tf[n].denom@ && c.amount@ == tf[n].amount@ && coin_sum(funds, tf[n].denom@) == tf[n].amount@),
    ensures tf[n].denom@ != pcf.denom@ ==> fees_list_ok(total.push(c), funds, pcf, tf, n + 1),
        tf[n].denom@ == pcf.denom@ ==> fees_list_ok(total, funds, pcf, tf, n + 1),
{
    if tf[n].denom@ != pcf.denom@ {
        let t2 = total.push(c);
        assert forall|i: int| 1 <= i < t2.len() implies #[trigger] tf_entry_ok(t2, funds, pcf, tf, i) by {
            if i < total.len() { assert(tf_entry_ok(total, funds, pcf, tf, i)); assert(t2[i] == total[i]); }
        }
        assert forall|k: int| 0 <= k < n + 1 implies #[trigger] tf_paid(funds, pcf, tf, k) by {
            if k < n { assert(tf_paid(funds, pcf, tf, k)); }
        }
    } else {
        assert forall|k: int| 0 <= k < n + 1 implies #[trigger] tf_paid(funds, pcf, tf, k) by {
            if k < n { assert(tf_paid(funds, pcf, tf, k)); }
        }
    }
}

// @lemma create_pool_exact_funds [C16,C01]
/// C16: the two validations together force the attached funds to be exactly creation fee + token-factory fees
pub proof fn lemma_exact_funds(funds: Seq<Coin>, pcf: Coin, tf: Seq<Coin>, total: Seq<Coin>, d: Seq<char>)
    requires
        denoms_distinct(tf),
        fees_list_ok(total, funds, pcf, tf, tf.len() as int),
        coin_sum(funds, pcf.denom@) == required_funds(pcf, tf, pcf.denom@),
        forall|k: int| 0 <= k < funds.len() ==> #[trigger] fund_has_entry(total, funds, k),
    ensures coin_sum(funds, d) == required_funds(pcf, tf, d),
{
    if d == pcf.denom@ {
    } else if has_denom(tf, d) {
        let k = choose|k: int| 0 <= k < tf.len() && #[trigger] tf[k].denom@ == d;
        assert(tf_paid(funds, pcf, tf, k));
        lemma_coin_sum_distinct(tf, k);
    } else {
        lemma_coin_sum_absent(tf, d);
        if has_denom(funds, d) {
            let k = choose|k: int| 0 <= k < funds.len() && #[trigger] funds[k].denom@ == d;
            assert(fund_has_entry(total, funds, k));
            let i = choose|i: int| 0 <= i < total.len() && (#[trigger] total[i]).denom@ == funds[k].denom@ && total[i].amount@ == coin_sum(funds, funds[k].denom@);
            if i >= 1 {
                assert(tf_entry_ok(total, funds, pcf, tf, i));
            }
            assert(false);
        }
        lemma_coin_sum_absent(funds, d);
    }
}
} // verus!
