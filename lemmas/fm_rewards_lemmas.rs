// spec functions and lemmas for rewards and weight history (C05, C06, C07, C10)
verus! {
/// weight in effect at epoch e when only snapshots in [lo, e] are considered: the latest such snapshot, 0 if none
pub open spec fn win_weight(s: Storage, a: Seq<char>, lp: Seq<char>, lo: u64, e: u64) -> nat
    decreases e
{
    if e < lo { 0 }
    else if has_weight(s, a, lp, e) { s.weights@[(a, lp, e)]@ }
    else if e == lo || e == 0 { 0 }
    else { win_weight(s, a, lp, lo, (e - 1) as u64) }
}
/// C06/C07: the weight in effect at epoch e = value of the latest snapshot at or before e
pub open spec fn eff_weight(s: Storage, a: Seq<char>, lp: Seq<char>, e: u64) -> nat { win_weight(s, a, lp, 0, e) }

pub open spec fn no_weights(s: Storage, a: Seq<char>, lp: Seq<char>) -> bool { forall|e: u64| !has_weight(s, a, lp, e) }

pub proof fn lemma_win_weight_no_snapshots(s: Storage, a: Seq<char>, lp: Seq<char>, lo: u64, e: u64)
    requires forall|k: u64| lo <= k <= e ==> !has_weight(s, a, lp, k),
    ensures win_weight(s, a, lp, lo, e) == 0,
    decreases e,
{
    if e >= lo && e != lo && e != 0 { lemma_win_weight_no_snapshots(s, a, lp, lo, (e - 1) as u64); }
}
/// with a single snapshot at `u`, the effective weight from u on is that snapshot
pub proof fn lemma_eff_single(s: Storage, a: Seq<char>, lp: Seq<char>, u: u64, e: u64)
    requires has_weight(s, a, lp, u), forall|k: u64| has_weight(s, a, lp, k) ==> k == u, e >= u,
    ensures eff_weight(s, a, lp, e) == s.weights@[(a, lp, u)]@,
    decreases e,
{
    if e > u { lemma_eff_single(s, a, lp, u, (e - 1) as u64); }
}
/// if L is the latest snapshot epoch, the effective weight from L on is the snapshot at L
pub proof fn lemma_eff_after_latest(s: Storage, a: Seq<char>, lp: Seq<char>, l: u64, e: u64)
    requires has_weight(s, a, lp, l), forall|k: u64| has_weight(s, a, lp, k) ==> k <= l, e >= l,
    ensures eff_weight(s, a, lp, e) == s.weights@[(a, lp, l)]@,
    decreases e,
{
    if e > l { lemma_eff_after_latest(s, a, lp, l, (e - 1) as u64); }
}

/// a positive effective weight comes from some snapshot at or before the epoch
pub proof fn lemma_eff_pos_has_snapshot(s: Storage, a: Seq<char>, lp: Seq<char>, e: u64) -> (k: u64)
    requires eff_weight(s, a, lp, e) > 0,
    ensures k <= e, has_weight(s, a, lp, k),
    decreases e,
{
    if has_weight(s, a, lp, e) { e } else { lemma_eff_pos_has_snapshot(s, a, lp, (e - 1) as u64) }
}

/// if l is the latest snapshot epoch at or before e, the effective weight at e is the snapshot at l
pub proof fn lemma_eff_is_latest_at_or_before(s: Storage, a: Seq<char>, lp: Seq<char>, l: u64, e: u64)
    requires has_weight(s, a, lp, l), l <= e, forall|k: u64| has_weight(s, a, lp, k) && k <= e ==> k <= l,
    ensures eff_weight(s, a, lp, e) == s.weights@[(a, lp, l)]@,
    decreases e,
{
    if e > l { lemma_eff_is_latest_at_or_before(s, a, lp, l, (e - 1) as u64); }
}

/// the two states hold the same snapshots for (a, lp)
pub open spec fn same_history(s0: Storage, s1: Storage, a: Seq<char>, lp: Seq<char>) -> bool {
    forall|k: u64| (#[trigger] s1.weights@.dom().contains((a, lp, k)) == s0.weights@.dom().contains((a, lp, k)))
        && (s0.weights@.dom().contains((a, lp, k)) ==> s1.weights@[(a, lp, k)] == s0.weights@[(a, lp, k)])
}
/// the effective weight of (a, lp) only depends on that pair's snapshots
pub proof fn lemma_eff_frame(s0: Storage, s1: Storage, a: Seq<char>, lp: Seq<char>, e: u64)
    requires same_history(s0, s1, a, lp),
    ensures eff_weight(s1, a, lp, e) == eff_weight(s0, a, lp, e),
    decreases e,
{
    assert(has_weight(s1, a, lp, e) == s1.weights@.dom().contains((a, lp, e)));
    assert(has_weight(s0, a, lp, e) == s0.weights@.dom().contains((a, lp, e)));
    if !has_weight(s0, a, lp, e) && e > 0 { lemma_eff_frame(s0, s1, a, lp, (e - 1) as u64); }
}

// @lemma sync_never_backdates_a_later_weight [C06,C07]
/// C06/C07: a claim bounded by `until` must not change the weight in effect at any epoch >= until. The hypotheses are exactly
/// what sync_address_lp_weight_history(.., until, true) is PROVED to establish (nothing before until, the weight in effect
/// at until saved at until when there was one, later snapshots untouched). Before fix ef37db5 the code collapsed LATER
/// snapshots into `until` as well and this lemma was refuted (finding F1).
pub proof fn lemma_sync_never_backdates(s0: Storage, s1: Storage, a: Seq<char>, lp: Seq<char>, until: u64, e: u64)
    requires
        e >= until,
        forall|k: u64| k < until ==> !has_weight(s1, a, lp, k),
        forall|k: u64| k > until ==> (has_weight(s1, a, lp, k) == has_weight(s0, a, lp, k)) && (has_weight(s0, a, lp, k) ==> s1.weights@[(a, lp, k)] == s0.weights@[(a, lp, k)]),
        has_weight(s1, a, lp, until) == (exists|k: u64| k <= until && has_weight(s0, a, lp, k)),
        has_weight(s1, a, lp, until) ==> s1.weights@[(a, lp, until)]@ == eff_weight(s0, a, lp, until),
    ensures eff_weight(s1, a, lp, e) == eff_weight(s0, a, lp, e),
    decreases e,
{
    if e == until {
        if !has_weight(s1, a, lp, until) {
            lemma_win_weight_no_snapshots(s1, a, lp, 0, until);
            lemma_win_weight_no_snapshots(s0, a, lp, 0, until);
        }
    } else {
        lemma_sync_never_backdates(s0, s1, a, lp, until, (e - 1) as u64);
    }
}
} // verus!
verus! {
// ---------------------------------------------------------------- reward specification (C06, C07)
/// first epoch a user can be paid for: the epoch after the last claim, or the epoch of the user's first weight snapshot
pub open spec fn start_from_spec(s: Storage, user: Seq<char>, lp: Seq<char>) -> u64 {
    if s.last_claimed@.dom().contains(user) { (s.last_claimed@[user] + 1) as u64 }
    else { choose|e: u64| has_weight(s, user, lp, e) && forall|k: u64| has_weight(s, user, lp, k) ==> e <= k }
}
/// C07: reward of one farm for one epoch: emission * user weight / total weight, rounded down; nothing outside [start, end)
/// or when the total weight is zero
pub open spec fn epoch_reward(s: Storage, contract: Seq<char>, f: Farm, user: Seq<char>, lp: Seq<char>, from: u64, e: u64) -> nat {
    let uw = win_weight(s, user, lp, (from - 1) as u64, e);
    let tw = eff_weight(s, contract, lp, e);
    if f.start_epoch <= e && e < f.preliminary_end_epoch && tw > 0 { (f.emission_rate@ * uw) / tw } else { 0 }
}
/// sum of epoch rewards over [from, to]
pub open spec fn farm_reward(s: Storage, contract: Seq<char>, f: Farm, user: Seq<char>, lp: Seq<char>, from: u64, to: u64) -> nat
    decreases to
{
    if to < from { 0 }
    else if to == 0 { epoch_reward(s, contract, f, user, lp, from, to) }
    else { farm_reward(s, contract, f, user, lp, from, (to - 1) as u64) + epoch_reward(s, contract, f, user, lp, from, to) }
}
/// epochs at or after the farm's (exclusive) end pay nothing
pub proof fn lemma_farm_reward_tail(s: Storage, contract: Seq<char>, f: Farm, user: Seq<char>, lp: Seq<char>, from: u64, a: u64, b: u64)
    requires a <= b, a == b || f.preliminary_end_epoch <= a + 1,
    ensures farm_reward(s, contract, f, user, lp, from, b) == farm_reward(s, contract, f, user, lp, from, a),
    decreases b,
{
    if b > a {
        lemma_farm_reward_tail(s, contract, f, user, lp, from, a, (b - 1) as u64);
        assert(epoch_reward(s, contract, f, user, lp, from, b) == 0);
    }
}
/// C05/C07: amount of `denom` the first n farms of the list pay the user over [from, until]
pub open spec fn farms_total(s: Storage, contract: Seq<char>, farms: Seq<Farm>, user: Seq<char>, lp: Seq<char>, from: u64, until: u64, denom: Seq<char>, n: nat) -> nat
    decreases n
{
    if n == 0 || n > farms.len() { 0 } else {
        let f = farms[n - 1];
        farms_total(s, contract, farms, user, lp, from, until, denom, (n - 1) as nat)
            + (if f.start_epoch <= until && f.farm_asset.denom@ == denom { farm_reward(s, contract, f, user, lp, from, until) } else { 0 })
    }
}
pub open spec fn rewards_of(r: RewardsResponse) -> Seq<Coin> {
    match r {
        RewardsResponse::ClaimRewards { rewards, modified_farms } => rewards@,
        RewardsResponse::QueryRewardsResponse { rewards } => rewards@,
        RewardsResponse::RewardsResponse { total_rewards, rewards_per_lp_denom } => total_rewards@,
    }
}
pub proof fn lemma_farm_reward_empty(s: Storage, contract: Seq<char>, f: Farm, user: Seq<char>, lp: Seq<char>, from: u64, to: u64)
    requires to < from,
    ensures farm_reward(s, contract, f, user, lp, from, to) == 0,
{}
pub proof fn lemma_farms_total_empty(s: Storage, contract: Seq<char>, farms: Seq<Farm>, user: Seq<char>, lp: Seq<char>, from: u64, until: u64, denom: Seq<char>, n: nat)
    requires until < from,
    ensures farms_total(s, contract, farms, user, lp, from, until, denom, n) == 0,
    decreases n,
{
    if n != 0 && n <= farms.len() { lemma_farms_total_empty(s, contract, farms, user, lp, from, until, denom, (n - 1) as nat); }
}
/// what calculate_rewards reports per farm (claim mode): for every farm of the LP token that has started by `until`
pub open spec fn modified_farms_ok(s: Storage, contract: Seq<char>, user: Seq<char>, lp: Seq<char>, until: u64, m: Map<Seq<char>, Uint128>) -> bool {
    let from = start_from_spec(s, user, lp);
    forall|id: Seq<char>| #![auto] m.dom().contains(id) ==> s.farms@.dom().contains(id) && s.farms@[id].lp_denom@ == lp
        && m[id]@ == farm_reward(s, contract, s.farms@[id], user, lp, from, until)
}
} // verus!
