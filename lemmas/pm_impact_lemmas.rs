// C13, first sentence: "A swap executes only if its price impact plus fees, measured against the pre-trade pool price, is
// within the caller's max slippage". On a constant-product pool with reserves (x, y) the pre-trade price values an offer dx
// at dx*y/x ask units; what the receiver gets (net of all fees) may fall short of that by at most the tolerance.
// Stated over the predicate assert_max_slippage is pinned to (slippage_ok_no_belief) and the "ideal return" compute_swap is
// pinned to (cp_ideal_spec), with the two granularities explicit: one ask unit and one 1e-18 step. Only unit pm_math loads this.
verus! {
// @lemma cp_price_impact_plus_fees_within_the_limit [C13]
pub proof fn lemma_cp_price_impact_within_limit(x: nat, y: nat, dx: nat, net: nat, max_slippage: Option<Decimal>)
    requires
        x > 0,
        net <= cp_ideal_spec(x, y, dx), cp_ideal_spec(x, y, dx) > 0,
        // what perform_swap hands to assert_max_slippage: return = net, slippage = ideal - net (price impact + every fee)
        slippage_ok_no_belief(max_slippage, net, (cp_ideal_spec(x, y, dx) - net) as nat),
    ensures
        // (net + 1 unit) >= dx*y/x * (1 - max - 1e-18), scaled by x * 1e18
        (net * DEC + (DEC - eff_max_slippage(max_slippage) - 1)) * x > dx * y * (DEC - eff_max_slippage(max_slippage) - 1),
{
    let m = eff_max_slippage(max_slippage);
    let k = (DEC - m - 1) as nat;
    let ideal = cp_ideal_spec(x, y, dx);
    let slip = (ideal - net) as nat;
    assert(m <= 500_000_000_000_000_000nat);
    // the ideal return is the exact floor of dx*y/x: (ideal + 1) * x > dx * y
    let n = dx * y;
    vstd::arithmetic::div_mod::lemma_fundamental_div_mod(n as int, x as int);
    vstd::arithmetic::div_mod::lemma_mod_bound(n as int, x as int);
    let r0 = (n % x) as nat;
    assert(ideal == n / x);
    assert(n == x * ideal + r0 && r0 < x);
    assert(ideal * x + x > n) by (nonlinear_arith) requires n == x * ideal + r0, r0 < x;
    // acceptance: floor(slip * DEC / ideal) <= m
    assert(net + slip == ideal);
    let sd = slip * DEC;
    vstd::arithmetic::div_mod::lemma_fundamental_div_mod(sd as int, ideal as int);
    vstd::arithmetic::div_mod::lemma_mod_bound(sd as int, ideal as int);
    let q = sd / ideal;
    let r1 = (sd % ideal) as nat;
    assert(q <= m);
    assert(sd == ideal * q + r1 && r1 < ideal);
    assert(sd < (m + 1) * ideal) by (nonlinear_arith) requires sd == ideal * q + r1, r1 < ideal, q <= m;
    assert(net * DEC >= ideal * k) by (nonlinear_arith)
        requires sd < (m + 1) * ideal, sd == slip * DEC, slip == ideal - net, k == DEC - m - 1, net <= ideal;
    assert((net * DEC + k) * x > n * k) by (nonlinear_arith)
        requires net * DEC >= ideal * k, ideal * x + x > n, k > 0, x > 0;
}
} // verus!
