// spec functions and lemmas for the farm lifecycle (C05, C11, C15, C20)
verus! {
/// storage invariant of the farm manager (farm part): farms are filed under their own identifier and never over-claimed
pub open spec fn fm_farms_inv(s: Storage) -> bool {
    forall|id: Seq<char>| #![auto] s.farms@.dom().contains(id) ==> s.farms@[id].identifier@ == id && s.farms@[id].claimed_amount@ <= s.farms@[id].farm_asset.amount@
}
pub open spec fn farm_remainder(f: Farm) -> nat {
    if f.farm_asset.amount@ >= f.claimed_amount@ { (f.farm_asset.amount@ - f.claimed_amount@) as nat } else { 0 }
}
/// C11/C20: the refund of a closed farm: a reply-on-error sub-message (id 1) sending exactly the unclaimed remainder to the farm owner
pub open spec fn is_refund_submsg(m: SubMsg, f: Farm) -> bool {
    m.id == 1 && m.reply_on == ReplyOn::Error
    && send_one(m.msg, f.owner@, f.farm_asset.denom@, farm_remainder(f))
}
/// `ms` is exactly the list of refunds of `farms` (in order; farms with nothing left produce no message)
pub open spec fn refunds_rel(farms: Seq<Farm>, ms: Seq<SubMsg>) -> bool
    decreases farms.len()
{
    if farms.len() == 0 { ms.len() == 0 }
    else if farm_remainder(farms.last()) > 0 {
        ms.len() > 0 && is_refund_submsg(ms.last(), farms.last()) && refunds_rel(farms.drop_last(), ms.drop_last())
    } else {
        refunds_rel(farms.drop_last(), ms)
    }
}
pub open spec fn remove_farms(m: Map<Seq<char>, Farm>, farms: Seq<Farm>) -> Map<Seq<char>, Farm>
    decreases farms.len()
{
    if farms.len() == 0 { m } else { remove_farms(m, farms.drop_last()).remove(farms.last().identifier@) }
}
pub proof fn lemma_refunds_step(farms: Seq<Farm>, i: int, ms_before: Seq<SubMsg>, ms_after: Seq<SubMsg>)
    requires 0 <= i < farms.len(), refunds_rel(farms.take(i), ms_before),
        farm_remainder(farms[i]) > 0 ==> ms_after.len() == ms_before.len() + 1 && ms_after.drop_last() =~= ms_before && is_refund_submsg(ms_after.last(), farms[i]),
        farm_remainder(farms[i]) == 0 ==> ms_after =~= ms_before,
    ensures refunds_rel(farms.take(i + 1), ms_after),
{
    assert(farms.take(i + 1).drop_last() =~= farms.take(i));
    assert(farms.take(i + 1).last() == farms[i]);
}
pub proof fn lemma_remove_step(m: Map<Seq<char>, Farm>, farms: Seq<Farm>, i: int)
    requires 0 <= i < farms.len(),
    ensures remove_farms(m, farms.take(i + 1)) == remove_farms(m, farms.take(i)).remove(farms[i].identifier@),
{
    assert(farms.take(i + 1).drop_last() =~= farms.take(i));
    assert(farms.take(i + 1).last() == farms[i]);
}
pub proof fn lemma_remove_keeps_inv(m: Map<Seq<char>, Farm>, farms: Seq<Farm>, id: Seq<char>)
    ensures remove_farms(m, farms).dom().contains(id) ==> m.dom().contains(id) && remove_farms(m, farms)[id] == m[id],
    decreases farms.len(),
{
    if farms.len() > 0 { lemma_remove_keeps_inv(m, farms.drop_last(), id); }
}

pub open spec fn plain(s: SubMsg) -> bool { s.reply_on == ReplyOn::Never && s.id == 0 }
/// C11: a farm is expired when nothing is left to claim or the grace period after its last epoch has passed (is_farm_expired)
pub open spec fn farm_expired_now(f: Farm, q: Querier, env: Env, expiration_time: u64) -> bool {
    f.preliminary_end_epoch < 0xffff_ffff_ffff_ffff && em_epoch_start_nanos(q, (f.preliminary_end_epoch + 1) as u64) is Some
    && (f.farm_asset.amount@ <= f.claimed_amount@
        || em_epoch_start_nanos(q, (f.preliminary_end_epoch + 1) as u64)->Some_0 as nat + (expiration_time as nat) * 1_000_000_000 < env.block.time.nanos as nat)
}
pub open spec fn new_farm_id(farm_identifier: Option<Str>, counter: Option<u64>) -> Seq<char> {
    match farm_identifier { Some(i) => "m-"@ + i@, None => "f-"@ + u64_str((counter->Some_0 + 1) as u64) }
}
} // verus!
