// spec functions and lemmas for positions (C05, C08, C09, C10, C15)
verus! {
/// latest recorded weight of (addr, lp): value of the snapshot with the greatest epoch, 0 if there is none
pub open spec fn latest_weight(s: Storage, a: Seq<char>, lp: Seq<char>) -> nat {
    if exists|e: u64| has_weight(s, a, lp, e) {
        let e = choose|e: u64| has_weight(s, a, lp, e) && forall|e2: u64| has_weight(s, a, lp, e2) ==> e2 <= e;
        s.weights@[(a, lp, e)]@
    } else { 0 }
}
pub open spec fn sat_sub(a: nat, b: nat) -> nat { if a >= b { (a - b) as nat } else { 0 } }

/// C10/C06: a position change writes exactly two snapshots, both for the NEXT epoch: first the contract total, then the
/// user's weight (read after the first write, exactly as the code does)
pub open spec fn weights_updated(s0: Storage, s1: Storage, contract: Seq<char>, user: Seq<char>, lp: Seq<char>, next_epoch: u64, w: nat, fill: bool) -> bool {
    let t0 = latest_weight(s0, contract, lp);
    let t1: nat = if fill { t0 + w } else { sat_sub(t0, w) };
    let mid = Storage { weights: Ghost(s0.weights@.insert((contract, lp, next_epoch), Uint128 { v: t1 as u128 })), ..s0 };
    let u0 = latest_weight(mid, user, lp);
    let u1: nat = if fill { u0 + w } else { sat_sub(u0, w) };
    t1 <= U128_MAX && u1 <= U128_MAX
    && s1 == (Storage { weights: Ghost(mid.weights@.insert((user, lp, next_epoch), Uint128 { v: u1 as u128 })), ..s0 })
}
/// writing a snapshot of another address leaves a user's latest weight unchanged
pub proof fn lemma_latest_weight_frame(s0: Storage, k: (Seq<char>, Seq<char>, u64), v: Uint128, a: Seq<char>, lp: Seq<char>)
    requires k.0 != a || k.1 != lp,
    ensures latest_weight(Storage { weights: Ghost(s0.weights@.insert(k, v)), ..s0 }, a, lp) == latest_weight(s0, a, lp),
{
    let s1 = Storage { weights: Ghost(s0.weights@.insert(k, v)), ..s0 };
    assert forall|e: u64| has_weight(s1, a, lp, e) == has_weight(s0, a, lp, e) by { }
    if exists|e: u64| has_weight(s0, a, lp, e) {
        let e0 = choose|e: u64| has_weight(s0, a, lp, e) && forall|e2: u64| has_weight(s0, a, lp, e2) ==> e2 <= e;
        let e1 = choose|e: u64| has_weight(s1, a, lp, e) && forall|e2: u64| has_weight(s1, a, lp, e2) ==> e2 <= e;
        lemma_latest_exists(s0, a, lp);
        lemma_latest_exists(s1, a, lp);
        assert(has_weight(s0, a, lp, e1));
        assert(has_weight(s1, a, lp, e0));
        assert(e0 == e1);
    }
}
/// the latest weight only depends on the weight history
pub proof fn lemma_latest_weight_only_weights(s0: Storage, s1: Storage, a: Seq<char>, lp: Seq<char>)
    requires s0.weights == s1.weights,
    ensures latest_weight(s0, a, lp) == latest_weight(s1, a, lp),
{
    assert forall|e: u64| has_weight(s1, a, lp, e) == has_weight(s0, a, lp, e) by { }
    if exists|e: u64| has_weight(s0, a, lp, e) {
        let e0 = choose|e: u64| has_weight(s0, a, lp, e) && forall|e2: u64| has_weight(s0, a, lp, e2) ==> e2 <= e;
        let e1 = choose|e: u64| has_weight(s1, a, lp, e) && forall|e2: u64| has_weight(s1, a, lp, e2) ==> e2 <= e;
        lemma_latest_exists(s0, a, lp);
        lemma_latest_exists(s1, a, lp);
        assert(has_weight(s0, a, lp, e1));
        assert(has_weight(s1, a, lp, e0));
        assert(e0 == e1);
    }
}
/// the latest weight is the snapshot at the greatest epoch
pub proof fn lemma_latest_is(s: Storage, a: Seq<char>, lp: Seq<char>, l: u64)
    requires has_weight(s, a, lp, l), forall|k: u64| has_weight(s, a, lp, k) ==> k <= l,
    ensures latest_weight(s, a, lp) == s.weights@[(a, lp, l)]@,
{
    let e = choose|e: u64| has_weight(s, a, lp, e) && forall|e2: u64| has_weight(s, a, lp, e2) ==> e2 <= e;
    assert(has_weight(s, a, lp, e) && forall|e2: u64| has_weight(s, a, lp, e2) ==> e2 <= e);
    assert(e <= l && l <= e);
}
/// a non-empty set of u64 epochs has a greatest element
pub proof fn lemma_latest_exists(s: Storage, a: Seq<char>, lp: Seq<char>)
    requires exists|e: u64| has_weight(s, a, lp, e),
    ensures exists|e: u64| has_weight(s, a, lp, e) && forall|e2: u64| has_weight(s, a, lp, e2) ==> e2 <= e,
{
    let e0 = choose|e: u64| has_weight(s, a, lp, e);
    lemma_max_from(s, a, lp, e0, 0xffff_ffff_ffff_ffffu64);
}
proof fn lemma_max_from(s: Storage, a: Seq<char>, lp: Seq<char>, lo: u64, hi: u64)
    requires has_weight(s, a, lp, lo), lo <= hi, forall|e2: u64| has_weight(s, a, lp, e2) ==> e2 <= hi,
    ensures exists|e: u64| has_weight(s, a, lp, e) && forall|e2: u64| has_weight(s, a, lp, e2) ==> e2 <= e,
    decreases hi - lo,
{
    if has_weight(s, a, lp, hi) {
    } else if lo == hi {
    } else {
        let h2 = (hi - 1) as u64;
        assert forall|e2: u64| has_weight(s, a, lp, e2) implies e2 <= h2 by { assert(e2 <= hi); assert(e2 != hi); }
        lemma_max_from(s, a, lp, lo, h2);
    }
}

// @lemma close_keeps_total_above_other_users [C10]
/// C10: the total must keep covering the other users' weights when a user's weight is removed. With the coded double
/// saturation this holds only when the removed weight does not exceed the user's recorded weight (finding F2 otherwise).
pub proof fn lemma_close_keeps_total_above_others(total: nat, user: nat, others: nat, w: nat)
    requires total >= user + others,
    ensures sat_sub(total, w) >= sat_sub(user, w) + others,
{
}

pub open spec fn new_position_id(identifier: Option<Str>, counter: Option<u64>) -> Seq<char> {
    match identifier { Some(i) => "u-"@ + i@, None => "p-"@ + u64_str(((match counter { Some(c) => c, None => 0u64 }) + 1) as u64) }
}
pub open spec fn is_partial_position(r: Position, p: Position, c: Coin, nid: Seq<char>, exp: nat) -> bool {
    !r.open && r.expiring_at is Some && r.expiring_at->Some_0 as nat == exp && r.lp_asset == c && r.receiver == p.receiver
    && r.unlocking_duration == p.unlocking_duration && r.identifier@ == nid
}
pub uninterp spec fn partial_position(p: Position, c: Coin, nid: Seq<char>, exp: u64) -> Position;
pub open spec fn positions_frame(s0: Storage, s1: Storage) -> bool {
    s1.config == s0.config && s1.farms == s0.farms && s1.farm_counter == s0.farm_counter
    && s1.owner == s0.owner && s1.pending_owner == s0.pending_owner && s1.pending_expiry == s0.pending_expiry
}
} // verus!
verus! {
// ---------------------------------------------------------------- withdrawals (C05, C08, C09)
pub open spec fn coins_total(cs: Seq<Coin>, denom: Seq<char>) -> nat
    decreases cs.len()
{
    if cs.len() == 0 { 0 } else { coins_total(cs.drop_last(), denom) + (if cs.last().denom@ == denom { cs.last().amount@ } else { 0 }) }
}
pub open spec fn msg_outflow(m: CosmosMsg, denom: Seq<char>) -> nat {
    match m { CosmosMsg::Bank(BankMsg::Send { to_address, amount }) => coins_total(amount@, denom), CosmosMsg::Bank(BankMsg::Burn { amount }) => coins_total(amount@, denom), _ => 0 }
}
/// total amount of `denom` leaving the contract through a list of messages
pub open spec fn sends_total(ms: Seq<CosmosMsg>, denom: Seq<char>) -> nat
    decreases ms.len()
{
    if ms.len() == 0 { 0 } else { sends_total(ms.drop_last(), denom) + msg_outflow(ms.last(), denom) }
}
pub proof fn lemma_send_one_outflow(m: CosmosMsg, to: Seq<char>, denom: Seq<char>, amount: nat)
    requires send_one(m, to, denom, amount),
    ensures msg_outflow(m, denom) == amount,
{
    match m {
        CosmosMsg::Bank(BankMsg::Send { to_address, amount: coins }) => {
            assert(coins@.drop_last().len() == 0);
            assert(coins_total(coins@.drop_last(), denom) == 0);
            assert(coins@.last() == coins@[0]);
        },
        _ => {},
    }
}
pub proof fn lemma_sends_push(ms: Seq<CosmosMsg>, m: CosmosMsg, denom: Seq<char>)
    ensures sends_total(ms.push(m), denom) == sends_total(ms, denom) + msg_outflow(m, denom),
{
    assert(ms.push(m).drop_last() =~= ms);
}
// @lemma penalty_split_conserved [C09,C05]
/// C09: n equal owner shares of floor(share/n) never exceed the owners' half; with the collector's part the penalty is not exceeded
pub proof fn lemma_penalty_split(total: nat, n: nat)
    requires n > 0,
    ensures n * (((total / 2) as nat) / n) + (total - total / 2) <= total,
{
    let half = total / 2;
    vstd::arithmetic::div_mod::lemma_fundamental_div_mod(half as int, n as int);
    vstd::arithmetic::div_mod::lemma_mod_bound(half as int, n as int);
    assert(n * (half / n) <= half) by (nonlinear_arith) requires half == n * (half / n) + half % n, half % n >= 0;
}

/// floor(floor(n*d/m)/d) == floor(n/m)  (Decimal::from_ratio(n, m).to_uint_floor())
pub proof fn lemma_nested_floor_dec(n: nat, m: nat, d: nat)
    requires m > 0, d > 0,
    ensures ((n * d) / m) / d == n / m,
{
    vstd::arithmetic::div_mod::lemma_div_denominator((n * d) as int, m as int, d as int);
    assert(m * d == d * m) by (nonlinear_arith);
    vstd::arithmetic::div_mod::lemma_div_multiples_vanish_quotient(d as int, n as int, m as int);
    assert(d * n == n * d) by (nonlinear_arith);
}

pub proof fn lemma_mul_div_cancel_dec(a: nat, s: nat)
    ensures ((a * DEC) * s) / DEC == a * s, (a * DEC) / 1 == a * DEC,
{
    assert((a * DEC) * s == (a * s) * DEC) by (nonlinear_arith);
    vstd::arithmetic::div_mod::lemma_div_multiples_vanish((a * s) as int, DEC as int);
    assert(DEC * (a * s) == (a * s) * DEC) by (nonlinear_arith);
}
} // verus!
