// C13: "... or, when a belief price is given, only if the return is at least offer/belief_price x (1 - max slippage)".
// Over the predicate assert_max_slippage is pinned to (slippage_ok_belief / belief_expected), with the two unavoidable
// granularities made explicit: one smallest unit of the ask asset and one 1e-18 step of the tolerance.
// Only unit pm_math loads this file.
verus! {
// @lemma belief_price_bound_is_the_stated_one [C13]
pub proof fn lemma_belief_price_bound(bp: Decimal, max_slippage: Option<Decimal>, offer: nat, ret: nat)
    requires bp@ > 0, belief_expected(bp, offer) > 0, slippage_ok_belief(bp, max_slippage, offer, ret),
    ensures
        // (ret + 1 unit) * belief_price  >=  offer * (1 - max - 1e-18), all scaled by 1e36
        (ret * DEC + (DEC - eff_max_slippage(max_slippage) - 1)) * bp@ > offer * DEC * (DEC - eff_max_slippage(max_slippage) - 1),
{
    let m = eff_max_slippage(max_slippage);
    let e = belief_expected(bp, offer);
    let k = (DEC - m - 1) as nat;
    assert(m <= 500_000_000_000_000_000nat);
    // e is the exact floor of offer * 1e18 / belief_price atomics: e * bp > offer * DEC - bp
    vstd::arithmetic::div_mod::lemma_fundamental_div_mod((offer * DEC) as int, bp@ as int);
    vstd::arithmetic::div_mod::lemma_mod_bound((offer * DEC) as int, bp@ as int);
    assert(e == (offer * DEC) / bp@);
    let r0 = ((offer * DEC) % bp@) as nat;
    let b = bp@;
    let od = offer * DEC;
    assert(od == b * e + r0 && r0 < b);
    assert(e * b + b > od) by (nonlinear_arith) requires od == b * e + r0, r0 < b;
    // acceptance gives ret * DEC >= e * k
    if ret >= e {
        assert(ret * DEC >= e * k) by (nonlinear_arith) requires ret >= e, k <= DEC;
    } else {
        let d = (e - ret) as nat;
        vstd::arithmetic::div_mod::lemma_fundamental_div_mod((d * DEC) as int, e as int);
        vstd::arithmetic::div_mod::lemma_mod_bound((d * DEC) as int, e as int);
        let q = (d * DEC) / e;
        assert(q <= m);
        let r1 = ((d * DEC) % e) as nat;
        let dd = d * DEC;
        assert(dd == e * q + r1 && r1 < e);
        assert(dd < (m + 1) * e) by (nonlinear_arith) requires dd == e * q + r1, r1 < e, q <= m;
        assert(ret * DEC >= e * k) by (nonlinear_arith)
            requires dd < (m + 1) * e, dd == d * DEC, d == e - ret, k == DEC - m - 1, ret < e;
    }
    assert((ret * DEC + k) * bp@ > offer * DEC * k) by (nonlinear_arith)
        requires ret * DEC >= e * k, e * b + b > od, od == offer * DEC, b == bp@, k > 0, b > 0;
}
} // verus!
