// spec functions and lemmas for the pool-manager swap path (C01, C04, C12, C13, C16, C17)
verus! {

/// storage invariant of the pool manager: every stored pool record is well formed and filed under its own identifier
pub open spec fn pm_inv(s: Storage) -> bool {
    forall|id: Seq<char>| #![auto] s.pools@.dom().contains(id) ==> pool_wf(s.pools@[id]) && s.pools@[id].pool_identifier@ == id
}

/// everything except the pool records is unchanged
pub open spec fn non_pool_state_eq(a: Storage, b: Storage) -> bool {
    a.config == b.config && a.pool_counter == b.pool_counter && a.ssl_buffer == b.ssl_buffer
    && a.owner == b.owner && a.pending_owner == b.pending_owner && a.pending_expiry == b.pending_expiry
}

/// the result of `compute_swap` as a function of its arguments (purity of safe Rust without interior mutability: ASSUMED)
pub uninterp spec fn compute_swap_fn(p: PoolInfo, offer: Coin, ask: Seq<char>) -> Result<SwapComputation, ContractError>;

/// C16: fields of a pool that never change after creation
pub open spec fn pool_static_eq(a: PoolInfo, b: PoolInfo) -> bool {
    a.pool_identifier@ == b.pool_identifier@ && a.lp_denom@ == b.lp_denom@ && a.pool_type == b.pool_type && a.pool_fees == b.pool_fees
    && a.asset_decimals@ == b.asset_decimals@
    && a.asset_denoms@.len() == b.asset_denoms@.len()
    && (forall|i: int| 0 <= i < a.asset_denoms@.len() ==> #[trigger] a.asset_denoms@[i]@ == b.asset_denoms@[i]@)
    && a.assets@.len() == b.assets@.len()
    && (forall|i: int| 0 <= i < a.assets@.len() ==> #[trigger] a.assets@[i].denom@ == b.assets@[i].denom@)
}

/// reserve of `denom` in pool record `p` (0 if the pool does not hold it)
pub open spec fn reserve_of(p: PoolInfo, denom: Seq<char>) -> nat {
    if has_asset(p, denom) { p.assets@[asset_index(p, denom)].amount@ } else { 0 }
}

/// C01/C04: effect of an executed swap on the pool record: offer added in full, ask reduced by exactly what leaves
pub open spec fn swap_applied(old_p: PoolInfo, new_p: PoolInfo, offer_denom: Seq<char>, offer: nat, ask_denom: Seq<char>, out: nat) -> bool {
    pool_static_eq(old_p, new_p) && old_p.status == new_p.status
    && (forall|i: int| 0 <= i < old_p.assets@.len() ==> #[trigger] new_p.assets@[i].amount@ == (
        if old_p.assets@[i].denom@ == offer_denom { old_p.assets@[i].amount@ + offer }
        else if old_p.assets@[i].denom@ == ask_denom { (old_p.assets@[i].amount@ - out) as nat }
        else { old_p.assets@[i].amount@ }))
}

pub open spec fn send_msg(to: Seq<char>, denom: Seq<char>, amount: nat, m: CosmosMsg) -> bool {
    match m {
        CosmosMsg::Bank(BankMsg::Send { to_address, amount: coins }) =>
            to_address@ == to && coins@.len() == 1 && coins@[0].denom@ == denom && coins@[0].amount@ == amount,
        _ => false,
    }
}
pub open spec fn burn_msg(denom: Seq<char>, amount: nat, m: CosmosMsg) -> bool {
    match m {
        CosmosMsg::Bank(BankMsg::Burn { amount: coins }) =>
            coins@.len() == 1 && coins@[0].denom@ == denom && coins@[0].amount@ == amount,
        _ => false,
    }
}
/// the plain messages of a response (sub-message wrappers stripped)
pub open spec fn resp_msgs(r: Response) -> Seq<CosmosMsg> { r.messages@.map_values(|s: SubMsg| s.msg) }
pub open spec fn plain(s: SubMsg) -> bool { s.reply_on == ReplyOn::Never && s.id == 0 }
/// C04: the exact outgoing message list of a direct swap
pub open spec fn swap_msgs_ok(ms: Seq<SubMsg>, receiver: Seq<char>, collector: Seq<char>, denom: Seq<char>, ret: nat, burn: nat, protocol: nat) -> bool {
    let n_ret: int = if ret > 0 { 1 } else { 0 };
    let n_burn: int = if burn > 0 { 1 } else { 0 };
    let n_prot: int = if protocol > 0 { 1 } else { 0 };
    ms.len() == n_ret + n_burn + n_prot
    && (forall|i: int| 0 <= i < ms.len() ==> plain(#[trigger] ms[i]))
    && (ret > 0 ==> send_msg(receiver, denom, ret, ms[0].msg))
    && (burn > 0 ==> burn_msg(denom, burn, ms[n_ret].msg))
    && (protocol > 0 ==> send_msg(collector, denom, protocol, ms[n_ret + n_burn].msg))
}

} // verus!
verus! {
// ---------------------------------------------------------------- routed swaps (C01, C04, C12, C13, C17)
pub open spec fn op_in(op: SwapOperation) -> Seq<char> { op->token_in_denom@ }
pub open spec fn op_out(op: SwapOperation) -> Seq<char> { op->token_out_denom@ }
pub open spec fn op_pool(op: SwapOperation) -> Seq<char> { op->pool_identifier@ }

/// outputs of consecutive operations chain: op[i].out == op[i+1].in
pub open spec fn ops_chain(ops: Seq<SwapOperation>) -> bool {
    forall|i: int| 0 <= i < ops.len() - 1 ==> op_out(#[trigger] ops[i]) == op_in(ops[i + 1])
}

/// the fee messages one hop appends: [burn if burn > 0] ++ [send protocol fee to the collector if > 0]
pub open spec fn hop_fee_msgs_ok(added: Seq<CosmosMsg>, collector: Seq<char>, denom: Seq<char>, burn: nat, protocol: nat) -> bool {
    let n_burn: int = if burn > 0 { 1 } else { 0 };
    let n_prot: int = if protocol > 0 { 1 } else { 0 };
    added.len() == n_burn + n_prot
    && (burn > 0 ==> burn_msg(denom, burn, added[0]))
    && (protocol > 0 ==> send_msg(collector, denom, protocol, added[n_burn]))
}

/// one executed hop: state `sp`, coin `inp` offered to op -> state `sk`, coin `outk` produced, fee messages mp -> mk
pub open spec fn hop_rel(sp: Storage, inp: Coin, op: SwapOperation, max: Option<Decimal>, sk: Storage, outk: Coin, mp: Seq<CosmosMsg>, mk: Seq<CosmosMsg>) -> bool {
    let id = op_pool(op);
    let c = compute_swap_fn(sp.pools@[id], inp, op_out(op));
    sp.pools@.dom().contains(id) && sp.pools@[id].status.swaps_enabled
    && c is Ok
    && outk.denom@ == op_out(op) && outk.amount == c->Ok_0.return_amount
    && inp.denom@ != op_out(op)
    && sk.pools@.dom().contains(id)
    && swap_applied(sp.pools@[id], sk.pools@[id], inp.denom@, inp.amount@, op_out(op),
        c->Ok_0.return_amount@ + c->Ok_0.protocol_fee_amount@ + c->Ok_0.burn_fee_amount@)
    && c->Ok_0.return_amount@ + c->Ok_0.protocol_fee_amount@ + c->Ok_0.burn_fee_amount@ <= reserve_of(sp.pools@[id], op_out(op))
    && sk == (Storage { pools: Ghost(sp.pools@.insert(id, sk.pools@[id])), ..sp })
    && (c->Ok_0.return_amount@ + c->Ok_0.slippage_amount@ > 0 && c->Ok_0.return_amount@ + c->Ok_0.slippage_amount@ <= U128_MAX
        ==> slippage_ok_no_belief(max, c->Ok_0.return_amount@, c->Ok_0.slippage_amount@))
    && (c->Ok_0.protocol_fee_amount@ > 0 ==> sp.config@ is Some)
    && mp.len() <= mk.len() && mk.subrange(0, mp.len() as int) == mp
    && hop_fee_msgs_ok(mk.subrange(mp.len() as int, mk.len() as int), sp.config@->Some_0.fee_collector_addr@, op_out(op),
        c->Ok_0.burn_fee_amount@, c->Ok_0.protocol_fee_amount@)
}

/// hop i of a recorded route: states st, coins outs (outs[0] = the offer) and fee-message prefixes ms
pub open spec fn hop_at(st: Seq<Storage>, outs: Seq<Coin>, ms: Seq<Seq<CosmosMsg>>, ops: Seq<SwapOperation>, max: Option<Decimal>, i: int) -> bool {
    hop_rel(st[i], outs[i], ops[i], max, st[i + 1], outs[i + 1], ms[i], ms[i + 1])
}
/// k hops of `ops` executed from state s0 with coin `inp`, recorded as sequences of intermediate states/coins/fee messages
pub open spec fn route_seq(s0: Storage, inp: Coin, ops: Seq<SwapOperation>, max: Option<Decimal>, k: nat,
    st: Seq<Storage>, outs: Seq<Coin>, ms: Seq<Seq<CosmosMsg>>) -> bool {
    k <= ops.len() && st.len() == k + 1 && outs.len() == k + 1 && ms.len() == k + 1
    && st[0] == s0 && outs[0] == inp && ms[0] == Seq::<CosmosMsg>::empty()
    && forall|i: int| 0 <= i < k ==> #[trigger] hop_at(st, outs, ms, ops, max, i)
}

/// final message list of a routed swap: [send the last output to the receiver if non-zero] ++ fee messages, nothing else
pub open spec fn route_msgs_ok(ms: Seq<SubMsg>, receiver: Seq<char>, out: Coin, fee_msgs: Seq<CosmosMsg>) -> bool {
    let n_ret: int = if out.amount@ > 0 { 1 } else { 0 };
    ms.len() == n_ret + fee_msgs.len()
    && (forall|i: int| 0 <= i < ms.len() ==> plain(#[trigger] ms[i]))
    && (out.amount@ > 0 ==> send_msg(receiver, out.denom@, out.amount@, ms[0].msg))
    && (forall|j: int| 0 <= j < fee_msgs.len() ==> (#[trigger] ms[n_ret + j]).msg == fee_msgs[j])
}

pub proof fn lemma_route_extend(s0: Storage, inp: Coin, ops: Seq<SwapOperation>, max: Option<Decimal>, k: nat,
    st: Seq<Storage>, outs: Seq<Coin>, ms: Seq<Seq<CosmosMsg>>, sk: Storage, outk: Coin, mk: Seq<CosmosMsg>)
    requires k < ops.len(), route_seq(s0, inp, ops, max, k, st, outs, ms),
        hop_rel(st[k as int], outs[k as int], ops[k as int], max, sk, outk, ms[k as int], mk),
    ensures route_seq(s0, inp, ops, max, k + 1, st.push(sk), outs.push(outk), ms.push(mk)),
{
    let st2 = st.push(sk);
    let outs2 = outs.push(outk);
    let ms2 = ms.push(mk);
    assert forall|i: int| 0 <= i < k + 1 implies #[trigger] hop_at(st2, outs2, ms2, ops, max, i) by {
        if i < k {
            assert(hop_at(st, outs, ms, ops, max, i));
        }
    }
}

} // verus!
verus! {
// ---------------------------------------------------------------- quote == execution for routes (C12)
/// simulated hop i against the UNCHANGED state s: amts[i+1] = return of compute_swap on s.pools[id_i]
pub open spec fn sim_at(s: Storage, ops: Seq<SwapOperation>, amts: Seq<Uint128>, i: int) -> bool {
    let c = compute_swap_fn(s.pools@[op_pool(ops[i])], Coin { denom: Str { v: Ghost(op_in(ops[i])) }, amount: amts[i] }, op_out(ops[i]));
    s.pools@.dom().contains(op_pool(ops[i])) && c is Ok && amts[i + 1] == c->Ok_0.return_amount
}
pub open spec fn sim_seq(s: Storage, offer: Uint128, ops: Seq<SwapOperation>, k: nat, amts: Seq<Uint128>) -> bool {
    k <= ops.len() && amts.len() == k + 1 && amts[0] == offer
    && forall|i: int| 0 <= i < k ==> #[trigger] sim_at(s, ops, amts, i)
}
pub open spec fn pools_distinct(ops: Seq<SwapOperation>) -> bool {
    forall|i: int, j: int| 0 <= i < j < ops.len() ==> op_pool(#[trigger] ops[i]) != op_pool(#[trigger] ops[j])
}

pub proof fn lemma_sim_extend(s: Storage, offer: Uint128, ops: Seq<SwapOperation>, k: nat, amts: Seq<Uint128>, next: Uint128)
    requires k < ops.len(), sim_seq(s, offer, ops, k, amts), sim_at(s, ops, amts.push(next), k as int),
    ensures sim_seq(s, offer, ops, k + 1, amts.push(next)),
{
    let a2 = amts.push(next);
    assert forall|i: int| 0 <= i < k + 1 implies #[trigger] sim_at(s, ops, a2, i) by {
        if i < k { assert(sim_at(s, ops, amts, i)); }
    }
}

/// pool `id` is untouched by the first k hops when no earlier hop used it
proof fn lemma_untouched(s0: Storage, inp: Coin, ops: Seq<SwapOperation>, max: Option<Decimal>, k: nat,
    st: Seq<Storage>, outs: Seq<Coin>, ms: Seq<Seq<CosmosMsg>>, id: Seq<char>)
    requires route_seq(s0, inp, ops, max, k, st, outs, ms), forall|i: int| 0 <= i < k ==> op_pool(#[trigger] ops[i]) != id,
    ensures st[k as int].pools@.dom().contains(id) == s0.pools@.dom().contains(id),
        s0.pools@.dom().contains(id) ==> st[k as int].pools@[id] == s0.pools@[id],
    decreases k,
{
    if k > 0 {
        let k1 = (k - 1) as nat;
        let st1 = st.subrange(0, k as int);
        let outs1 = outs.subrange(0, k as int);
        let ms1 = ms.subrange(0, k as int);
        assert forall|i: int| 0 <= i < k1 implies #[trigger] hop_at(st1, outs1, ms1, ops, max, i) by {
            assert(hop_at(st, outs, ms, ops, max, i));
        }
        lemma_untouched(s0, inp, ops, max, k1, st1, outs1, ms1, id);
        assert(hop_at(st, outs, ms, ops, max, k1 as int));
        assert(op_pool(ops[k1 as int]) != id);
    }
}

// @lemma route_quote_equals_execution [C12]
/// SimulateSwapOperations == ExecuteSwapOperations on routes that visit each pool at most once (pools may share denoms)
pub proof fn lemma_route_quote_equals_execution(s0: Storage, inp: Coin, ops: Seq<SwapOperation>, max: Option<Decimal>, k: nat,
    st: Seq<Storage>, outs: Seq<Coin>, ms: Seq<Seq<CosmosMsg>>, amts: Seq<Uint128>)
    requires
        route_seq(s0, inp, ops, max, k, st, outs, ms),
        sim_seq(s0, inp.amount, ops, k, amts),
        pools_distinct(ops), ops_chain(ops), ops.len() > 0, inp.denom@ == op_in(ops[0]),
    ensures
        forall|i: int| 0 <= i <= k ==> (#[trigger] outs[i]).amount == amts[i],
        forall|i: int| 0 <= i <= k ==> (#[trigger] outs[i]).denom@ == (if i == 0 { op_in(ops[0]) } else { op_out(ops[i - 1]) }),
    decreases k,
{
    if k > 0 {
        let k1 = (k - 1) as nat;
        let st1 = st.subrange(0, k as int);
        let outs1 = outs.subrange(0, k as int);
        let ms1 = ms.subrange(0, k as int);
        let amts1 = amts.subrange(0, k as int);
        assert forall|i: int| 0 <= i < k1 implies #[trigger] hop_at(st1, outs1, ms1, ops, max, i) by {
            assert(hop_at(st, outs, ms, ops, max, i));
        }
        assert forall|i: int| 0 <= i < k1 implies #[trigger] sim_at(s0, ops, amts1, i) by {
            assert(sim_at(s0, ops, amts, i));
        }
        lemma_route_quote_equals_execution(s0, inp, ops, max, k1, st1, outs1, ms1, amts1);
        assert forall|i: int| 0 <= i < k1 implies op_pool(#[trigger] ops[i]) != op_pool(ops[k1 as int]) by { }
        lemma_untouched(s0, inp, ops, max, k1, st1, outs1, ms1, op_pool(ops[k1 as int]));
        assert(hop_at(st, outs, ms, ops, max, k1 as int));
        assert(sim_at(s0, ops, amts, k1 as int));
        assert(outs1[k1 as int] == outs[k1 as int]);
        assert(amts1[k1 as int] == amts[k1 as int]);
        assert(st1[k1 as int] == st[k1 as int]);
        // same pool record, same offered coin (denom by chaining, amount by induction) => same compute_swap result
        let in_coin = outs[k1 as int];
        let sim_coin = Coin { denom: Str { v: Ghost(op_in(ops[k1 as int])) }, amount: amts[k1 as int] };
        assert(in_coin.denom@ == op_in(ops[k1 as int])) by {
            if k1 > 0 { assert(op_out(ops[k1 - 1]) == op_in(ops[k1 as int])); }
        }
        assert(in_coin == sim_coin);
        assert forall|i: int| 0 <= i <= k implies (#[trigger] outs[i]).amount == amts[i] by {
            if i < k { assert(outs1[i] == outs[i]); assert(amts1[i] == amts[i]); }
        }
        assert forall|i: int| 0 <= i <= k implies (#[trigger] outs[i]).denom@ == (if i == 0 { op_in(ops[0]) } else { op_out(ops[i - 1]) }) by {
            if i < k { assert(outs1[i] == outs[i]); }
        }
    }
}

} // verus!
