// spec functions and lemmas for the pool-manager swap path (C01, C04, C12, C13, C16, C17)
verus! {

/// storage invariant of the pool manager: every stored pool record is well formed and filed under its own identifier
pub open spec fn pm_inv(s: Storage) -> bool {
    forall|id: Seq<char>| #![auto] s.pools@.dom().contains(id) ==> pool_wf(s.pools@[id]) && s.pools@[id].pool_identifier@ == id
}

/// the result of `compute_swap` as a function of its arguments (purity of safe Rust without interior mutability: ASSUMED)
pub uninterp spec fn compute_swap_fn(p: PoolInfo, offer: Coin, ask: Seq<char>) -> Result<SwapComputation, ContractError>;

/// C16: fields of a pool that never change after creation
pub open spec fn pool_static_eq(a: PoolInfo, b: PoolInfo) -> bool {
    a.pool_identifier@ == b.pool_identifier@ && a.lp_denom@ == b.lp_denom@ && a.pool_type == b.pool_type && a.pool_fees == b.pool_fees
    && a.asset_decimals@ == b.asset_decimals@
    && a.asset_denoms@.len() == b.asset_denoms@.len()
    && (forall|i: int| 0 <= i < a.asset_denoms@.len() ==> #[trigger] a.asset_denoms@[i]@ == b.asset_denoms@[i]@)
    && a.assets@.len() == b.assets@.len()
    && (forall|i: int| 0 <= i < a.assets@.len() ==> #[trigger] a.assets@[i].denom@ == b.assets@[i].denom@)
}

/// reserve of `denom` in pool record `p` (0 if the pool does not hold it)
pub open spec fn reserve_of(p: PoolInfo, denom: Seq<char>) -> nat {
    if has_asset(p, denom) { p.assets@[asset_index(p, denom)].amount@ } else { 0 }
}

/// C01/C04: effect of an executed swap on the pool record: offer added in full, ask reduced by exactly what leaves
pub open spec fn swap_applied(old_p: PoolInfo, new_p: PoolInfo, offer_denom: Seq<char>, offer: nat, ask_denom: Seq<char>, out: nat) -> bool {
    pool_static_eq(old_p, new_p) && old_p.status == new_p.status
    && (forall|i: int| 0 <= i < old_p.assets@.len() ==> #[trigger] new_p.assets@[i].amount@ == (
        if old_p.assets@[i].denom@ == offer_denom { old_p.assets@[i].amount@ + offer }
        else if old_p.assets@[i].denom@ == ask_denom { (old_p.assets@[i].amount@ - out) as nat }
        else { old_p.assets@[i].amount@ }))
}

pub open spec fn send_msg(to: Seq<char>, denom: Seq<char>, amount: nat, m: CosmosMsg) -> bool {
    match m {
        CosmosMsg::Bank(BankMsg::Send { to_address, amount: coins }) =>
            to_address@ == to && coins@.len() == 1 && coins@[0].denom@ == denom && coins@[0].amount@ == amount,
        _ => false,
    }
}
pub open spec fn burn_msg(denom: Seq<char>, amount: nat, m: CosmosMsg) -> bool {
    match m {
        CosmosMsg::Bank(BankMsg::Burn { amount: coins }) =>
            coins@.len() == 1 && coins@[0].denom@ == denom && coins@[0].amount@ == amount,
        _ => false,
    }
}
/// the plain messages of a response (sub-message wrappers stripped)
pub open spec fn resp_msgs(r: Response) -> Seq<CosmosMsg> { r.messages@.map_values(|s: SubMsg| s.msg) }
pub open spec fn plain(s: SubMsg) -> bool { s.reply_on == ReplyOn::Never && s.id == 0 }
/// C04: the exact outgoing message list of a direct swap
pub open spec fn swap_msgs_ok(ms: Seq<SubMsg>, receiver: Seq<char>, collector: Seq<char>, denom: Seq<char>, ret: nat, burn: nat, protocol: nat) -> bool {
    let n_ret: int = if ret > 0 { 1 } else { 0 };
    let n_burn: int = if burn > 0 { 1 } else { 0 };
    let n_prot: int = if protocol > 0 { 1 } else { 0 };
    ms.len() == n_ret + n_burn + n_prot
    && (forall|i: int| 0 <= i < ms.len() ==> plain(#[trigger] ms[i]))
    && (ret > 0 ==> send_msg(receiver, denom, ret, ms[0].msg))
    && (burn > 0 ==> burn_msg(denom, burn, ms[n_ret].msg))
    && (protocol > 0 ==> send_msg(collector, denom, protocol, ms[n_ret + n_burn].msg))
}

} // verus!
