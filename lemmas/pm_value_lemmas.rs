// C02: "... so pool value per LP token (sqrt(x*y)/supply ...) never decreases through any deposit ... or withdrawal".
// Stated without square roots: value per share does not decrease iff  X*Y*(S')^2 <= X'*Y'*S^2  (all quantities positive).
// The premises are exactly what the contracts of provide_liquidity / withdraw_liquidity pin the code to:
// constant-product mint m = min(floor(a*S/X), floor(b*S/Y)); withdrawal refund_i = floor(reserve_i*m/S).
// Only unit pm_liq loads this file.
verus! {
// @lemma cp_deposit_never_dilutes [C02]
pub proof fn lemma_cp_deposit_never_dilutes(x: nat, y: nat, s: nat, a: nat, b: nat, m: nat)
    requires x > 0, y > 0, s > 0,
        m <= (a * s) / x, m <= (b * s) / y,
    ensures x * y * ((s + m) * (s + m)) <= (x + a) * (y + b) * (s * s),
{
    vstd::arithmetic::div_mod::lemma_fundamental_div_mod((a * s) as int, x as int);
    vstd::arithmetic::div_mod::lemma_mod_bound((a * s) as int, x as int);
    vstd::arithmetic::div_mod::lemma_fundamental_div_mod((b * s) as int, y as int);
    vstd::arithmetic::div_mod::lemma_mod_bound((b * s) as int, y as int);
    let qa = (a * s) / x; let qb = (b * s) / y;
    assert(x * qa <= a * s);
    assert(y * qb <= b * s);
    assert(x * m <= a * s) by (nonlinear_arith) requires x * qa <= a * s, m <= qa;
    assert(y * m <= b * s) by (nonlinear_arith) requires y * qb <= b * s, m <= qb;
    let u = x * (s + m); let v = (x + a) * s;
    let p = y * (s + m); let q = (y + b) * s;
    assert(u <= v) by (nonlinear_arith) requires x * m <= a * s, u == x * (s + m), v == (x + a) * s;
    assert(p <= q) by (nonlinear_arith) requires y * m <= b * s, p == y * (s + m), q == (y + b) * s;
    assert(u * p <= v * q) by (nonlinear_arith) requires u <= v, p <= q;
    assert(u * p == x * y * ((s + m) * (s + m))) by (nonlinear_arith) requires u == x * (s + m), p == y * (s + m);
    assert(v * q == (x + a) * (y + b) * (s * s)) by (nonlinear_arith) requires v == (x + a) * s, q == (y + b) * s;
}

// @lemma withdrawal_never_dilutes [C02]
pub proof fn lemma_withdrawal_never_dilutes(x: nat, y: nat, s: nat, m: nat)
    requires s > 0, m <= s,
    ensures ({
        let rx = withdraw_refund(x, m, s); let ry = withdraw_refund(y, m, s);
        rx <= x && ry <= y && x * y * ((s - m) * (s - m)) <= (x - rx) * (y - ry) * (s * s)
    }),
{
    let rx = withdraw_refund(x, m, s); let ry = withdraw_refund(y, m, s);
    lemma_refund_upper(x, m, s);
    lemma_refund_upper(y, m, s);
    assert(rx <= x) by (nonlinear_arith) requires rx * s <= x * m, m <= s, s > 0;
    assert(ry <= y) by (nonlinear_arith) requires ry * s <= y * m, m <= s, s > 0;
    let u = x * (s - m); let v = (x - rx) * s;
    let p = y * (s - m); let q = (y - ry) * s;
    assert(u <= v) by (nonlinear_arith) requires rx * s <= x * m, u == x * (s - m), v == (x - rx) * s, rx <= x, m <= s;
    assert(p <= q) by (nonlinear_arith) requires ry * s <= y * m, p == y * (s - m), q == (y - ry) * s, ry <= y, m <= s;
    assert(u >= 0 && p >= 0) by (nonlinear_arith) requires u == x * (s - m), p == y * (s - m), m <= s;
    assert(u * p <= v * q) by (nonlinear_arith) requires 0 <= u <= v, 0 <= p <= q;
    assert(u * p == x * y * ((s - m) * (s - m))) by (nonlinear_arith) requires u == x * (s - m), p == y * (s - m);
    assert(v * q == (x - rx) * (y - ry) * (s * s)) by (nonlinear_arith) requires v == (x - rx) * s, q == (y - ry) * s;
}
} // verus!
