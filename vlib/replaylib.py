"""Witness search and replay. The verifier decides; this module only tries to attach a concrete
failing input (evaluated on the REAL code through the replay crate) to a verdict already reached."""
import json
import os


def find_witness(pid, failure, seed):
    """returns a dict describing a concrete failing input replayed on the real code, or None"""
    try:
        import witness
        return witness.search(pid, failure, seed)
    except ImportError:
        return None
    except Exception as e:  # the finder never decides anything
        return None


def replay(pid, path):
    r = json.load(open(path))
    print(json.dumps({k: r.get(k) for k in ('property', 'obligation', 'function', 'source_location', 'verifier_message', 'witness', 'note')}, indent=1))
    print(r.get('verifier_output', ''))
    w = r.get('witness')
    if w and w.get('replay_cmd'):
        import subprocess
        return subprocess.call(w['replay_cmd'], shell=True)
    return 1
