"""Generate out/<unit>.rs from a unit definition: shim + specs + extracted items with contracts."""
import hashlib
import json
import os
import re

from rustlex import lex, Tok, match_close, OPEN
from extract import (ExtractError, Rewriter, find_item, load, resolve_src, line_of, text_of, parse_spec,
                     strip_trivia, is_p, is_id, T, FnSpec)

VERIF = os.path.dirname(os.path.dirname(os.path.abspath(__file__)))


class Emitter:
    def __init__(self):
        self.lines = []
        self.linemap = {}     # gen line (1-based) -> (file, line)
        self.obls = []        # obligations
        self.fn_ranges = []   # (start, end, fn name, src file, src line)
        self.vacuity = []     # vacuity twins (must fail)
        self.twins = []
        self.degraded = []    # functions whose optional hint anchor was lost
        self.parts = []       # %opt split: verified copies of one function, each proving a subset of its ensures
        self.assumed_contracts = []
        self.imported_lemmas = []

    @property
    def lineno(self):
        return len(self.lines) + 1

    def emit(self, text, origin=None):
        for ln in text.split('\n'):
            self.lines.append(ln)
            if origin:
                self.linemap[len(self.lines)] = origin

    def emit_tokens(self, toks, path, src_text):
        """emit token text, mapping every generated line to the source line of its first token"""
        cur = ''
        cur_origin = None
        for t in toks:
            parts = t.text.split('\n')
            for pi, p in enumerate(parts):
                if pi > 0:
                    self.lines.append(cur)
                    if cur_origin:
                        self.linemap[len(self.lines)] = cur_origin
                    cur, cur_origin = '', None
                if p and cur_origin is None and t.kind != 'ws':
                    cur_origin = (path, line_of(src_text, t.start))
                cur += p
        self.lines.append(cur)
        if cur_origin:
            self.linemap[len(self.lines)] = cur_origin


def nxt_sig(toks, k):
    j = k + 1
    while j < len(toks) and toks[j].kind in ('ws', 'comment', 'doc'):
        j += 1
    return j


def prv_sig(toks, k):
    j = k - 1
    while j >= 0 and toks[j].kind in ('ws', 'comment', 'doc'):
        j -= 1
    return j


def find_body_open(toks, start):
    """first '{' at bracket depth 0 from start"""
    k = start
    while k < len(toks):
        t = toks[k]
        if t.kind == 'punct':
            if t.text == '{':
                return k
            if t.text in ('(', '['):
                k = match_close(toks, k)
        k += 1
    raise ExtractError('no body')


def emit_clauses(em, kw, clauses, unit, fn, kind, indent='    '):
    if not clauses:
        return
    em.emit(indent + kw)
    for (label, tags, txt) in clauses:
        start = em.lineno
        body = txt.rstrip().rstrip(',')
        for ln in body.split('\n'):
            em.emit(indent + '    ' + ln.strip())
        em.lines[-1] += ','
        if label:
            em.obls.append({'name': '%s::%s::%s' % (unit, fn, label), 'unit': unit, 'fn': fn, 'label': label,
                            'tags': tags, 'kind': kind, 'gen_start': start, 'gen_end': em.lineno - 1})


SHADOWED_FN_NAMES = {'coin', 'coins', 'attr', 'mint', 'burn'}
CLOSURE_PREV = {'(', ',', '=', '=>', '{', ';', 'return', 'move', '&&', '||', '!'}
PRED_ADAPTERS = {'iter_count', 'into_iter_filter', 'iter_position', 'iter_any', 'iter_all', 'iter_find', 'iter_filter', 'position', 'any', 'all', 'find', 'filter', 'iter_count_where', 'is_some_and', 'retain'}


def closure_starts(toks):
    """indices of `|`/`||` tokens that begin a closure"""
    res = []
    for k, t in enumerate(toks):
        if t.kind == 'punct' and t.text in ('|', '||'):
            p = prv_sig(toks, k)
            pt = toks[p] if p >= 0 else None
            if pt is None or (pt.kind == 'punct' and pt.text in CLOSURE_PREV) or (pt.kind == 'ident' and pt.text in ('return', 'move')):
                res.append(k)
    # drop the closing bar of `|a|` being misdetected: a closing bar follows an ident/pattern, never a CLOSURE_PREV punct
    return res


def closure_extent(toks, k):
    """toks[k] opens a closure; returns (params_end_idx, body_start_idx, body_end_idx_exclusive, has_block, ret_range)"""
    if toks[k].text == '||':
        pe = k
    else:
        pe = k + 1
        while not (toks[pe].kind == 'punct' and toks[pe].text == '|'):
            if toks[pe].kind == 'punct' and toks[pe].text in OPEN:
                pe = match_close(toks, pe)
            pe += 1
    b = nxt_sig(toks, pe)
    ret = None
    if toks[b].kind == 'punct' and toks[b].text == '->':
        r0 = nxt_sig(toks, b)
        r1 = find_body_open(toks, r0)
        ret = (r0, r1)
        b = r1
    if toks[b].kind == 'punct' and toks[b].text == '{':
        e = match_close(toks, b) + 1
        return pe, b, e, True, ret
    # expression body: ends at ',' or ')' / ']' / '}' / ';' at depth 0
    j = b
    while j < len(toks):
        t = toks[j]
        if t.kind == 'punct':
            if t.text in OPEN:
                j = match_close(toks, j) + 1
                continue
            if t.text in (',', ')', ']', '}', ';'):
                break
        j += 1
    return pe, b, j, False, ret


def splice_closures(body, fspec, fname, rw, counter):
    """Closure contracts by ordinal (source order, outer before inner) + auto annotation of predicate closures (R3).
    Recursive: the body of a closure is itself processed, so nested closures get their own ordinal and annotation."""
    starts = closure_starts(body)
    out = []
    pos = 0
    k_i = 0
    while k_i < len(starts):
        k = starts[k_i]
        if k < pos:
            k_i += 1
            continue
        pe, b, e, has_block, ret = closure_extent(body, k)
        ordinal = counter[0]
        counter[0] += 1
        out.extend(body[pos:k])
        inner = splice_closures(body[b:e], fspec, fname, rw, counter)
        params = text_of(body[k:pe + 1])
        btxt = text_of(inner)
        cs = fspec.closures.get(ordinal) if fspec else None
        if cs is not None:
            if cs.get('params'):
                params = cs['params']
            r = cs.get('ret') or (('(__r: %s)' % text_of(body[ret[0]:ret[1]]).strip()) if ret else None)
            if r is None:
                raise ExtractError('closure %d of %s needs `%%ret`' % (ordinal, fname))
            txt = params + ' -> ' + r + '\n'
            for kw in ('requires', 'ensures'):
                cl = cs.get(kw) or []
                if cl:
                    txt += '        ' + kw + '\n'
                    for (label, tags, c) in cl:
                        txt += '            ' + ' '.join(x.strip() for x in c.rstrip().rstrip(',').split('\n')) + ',\n'
            pre = '\n'.join(cs.get('body', []))
            if has_block and pre:
                bi = btxt.index('{')
                btxt = btxt[:bi + 1] + '\n' + pre + '\n' + btxt[bi + 1:]
            txt += btxt if has_block else ('{ ' + pre + ' ' + btxt + ' }')
            out.append(T('raw', txt, body[k].start))
        else:
            done = False
            if not has_block and ret is None:
                p = prv_sig(body, k)
                pp = prv_sig(body, p) if p >= 0 else -1
                if p >= 0 and is_p(body[p], '(') and pp >= 0 and is_id(body[pp]) and body[pp].text in PRED_ADAPTERS and '|' not in text_of(body[b:e]):
                    expr = btxt.strip()
                    # a closure parameter that shadows a global fn of the shim (e.g. `coin`) is renamed (alpha conversion)
                    pm = re.match(r'^\|\s*([a-z_][a-z0-9_]*)\s*\|$', params.strip())
                    if pm and pm.group(1) in SHADOWED_FN_NAMES:
                        old = pm.group(1)
                        new_nm = old + '__p'
                        expr = re.sub(r'(?<![.:A-Za-z0-9_])' + old + r'(?![A-Za-z0-9_(])', new_nm, expr)
                        params = '|%s|' % new_nm
                        rw.rec('R3', 'closure parameter %s' % old, new_nm)
                    txt = '%s -> (__r: bool) ensures __r == (%s) { %s }' % (params, expr, expr)
                    rw.rec('R3', text_of(body[k:e]), txt)
                    out.append(T('raw', txt, body[k].start))
                    done = True
            if not done:
                out.extend(body[k:b])
                out.extend(inner)
        pos = e
        k_i += 1
    out.extend(body[pos:])
    return out


def splice_body(em_obls, body, fspec, unit, fname, rw):
    """apply loop/closure contracts and auto predicate-closure annotation; returns new token list"""
    counter = [0]
    body = splice_closures(body, fspec, fname, rw, counter)
    if fspec:
        for k_ in fspec.closures:
            if k_ >= counter[0]:
                raise ExtractError('closure %d of %s not found (function has %d closures)' % (k_, fname, counter[0]))

    # ---- loops
    if fspec and fspec.loops:
        loop_idx = [k for k, t in enumerate(body) if is_id(t) and t.text in ('for', 'while', 'loop')
                    and (prv_sig(body, k) < 0 or not is_p(body[prv_sig(body, k)], '.'))]
        out = list(body)
        for ordinal in sorted(fspec.loops.keys(), reverse=True):
            ls = fspec.loops[ordinal]
            if ordinal >= len(loop_idx):
                raise ExtractError('loop %d of %s not found (function has %d loops)' % (ordinal, fname, len(loop_idx)))
            k = loop_idx[ordinal]
            bo = find_body_open(out, k + 1)
            inv = ''
            r8 = [q for q in range(k, bo) if out[q].kind == 'r8mark']
            auto_inv, auto_dec = None, None
            if r8:
                n8 = int(re.search(r'R8:(\d+)', out[r8[0]].text).group(1))
                auto_inv = R8_INV % ((n8,) * R8_INV.count('%d'))
                auto_dec = '(if __more%d { (__hi%d - __next%d + 1) as int } else { 0 })' % (n8, n8, n8)
                out[r8[0]] = T('ws', ' ', out[r8[0]].start)
            if ls.get('invariant') or auto_inv:
                inv += '\n        invariant\n'
                if auto_inv:
                    inv += '            ' + auto_inv + ',\n'
                for (label, tags, c) in ls.get('invariant') or []:
                    inv += '            ' + ' '.join(x.strip() for x in c.rstrip().rstrip(',').split('\n')) + ',\n'
            if ls.get('decreases') or auto_dec:
                inv += '        decreases ' + (ls.get('decreases') or auto_dec) + '\n'
            if out[k].text == 'for' and ls.get('range_incl'):
                pass
            if out[k].text == 'for' and ls.get('map_entries'):
                # R10c: consuming `for (K, V) in MAP {` -> `let __entriesN = MAP.into_entries_(); for __eN in __entriesN.iter() { let (K, V) = (__eN.0.clone(), __eN.1.clone());`
                j = k + 1
                while not is_id(out[j], 'in'):
                    if out[j].kind == 'punct' and out[j].text in OPEN:
                        j = match_close(out, j)
                    j += 1
                pat = text_of(out[k + 1:j]).strip()
                mp = text_of(out[j + 1:bo]).strip()
                rw.rec('R10', 'for %s in %s' % (pat, mp), 'for __e in %s.into_entries_().iter() { let %s = (__e.0.clone(), __e.1.clone()); .. }' % (mp, pat))
                out[bo + 1:bo + 1] = [T('raw', ' let %s = (__e%d.0.clone(), __e%d.1.clone());' % (pat, ordinal, ordinal), out[bo].start)]
                out[j + 1:bo] = [T('raw', ' __entries%d.iter() ' % ordinal, out[j].start)]
                out[k + 1:j] = [T('raw', ' __e%d ' % ordinal, out[k].start)]
                out[k:k] = [T('raw', 'let __entries%d = %s.into_entries_();\n    ' % (ordinal, mp), out[k].start)]
                k += 1
                bo = find_body_open(out, k + 1)
            if out[k].text == 'for' and ls.get('indexed'):
                # R8d: consuming `for PAT in VEC {B}` whose body uses `continue` -> index loop that advances before the body
                j = k + 1
                while not is_id(out[j], 'in'):
                    if out[j].kind == 'punct' and out[j].text in OPEN:
                        j = match_close(out, j)
                    j += 1
                pat = text_of(out[k + 1:j]).strip()
                vec = text_of(out[j + 1:bo]).strip()
                if vec.startswith('&'):
                    vec = vec[1:].strip()
                be2 = match_close(out, bo)
                rw.rec('R8d', 'for %s in %s' % (pat, vec), 'while __i%d < %s.len() { let %s = %s[__i%d].clone(); __i%d += 1; .. }' % (ordinal, vec, pat, vec, ordinal, ordinal))
                inv_txt = ''
                if ls.get('invariant'):
                    inv_txt += '\n        invariant\n'
                    for (label, tags, c) in ls['invariant']:
                        inv_txt += '            ' + ' '.join(x.strip() for x in c.rstrip().rstrip(',').split('\n')) + ',\n'
                inv_txt += '        decreases %s.len() - __i%d\n    ' % (vec, ordinal)
                head = [T('raw', '{ let mut __i%d: usize = 0;\n    ' % ordinal, out[k].start), T('ident', 'while', out[k].start),
                        T('raw', ' __i%d < %s.len() %s' % (ordinal, vec, inv_txt), out[k].start)]
                first = [T('raw', ' let %s = %s[__i%d].clone(); __i%d = __i%d + 1;\n%s\n' % (pat, vec, ordinal, ordinal, ordinal, '\n'.join(ls.get('loop_begin', []))), out[bo].start)]
                tail = [T('raw', '\n' + '\n'.join(ls.get('loop_end', [])) + '\n', out[be2].start)] if ls.get('loop_end') else []
                after = [T('raw', ' }\n' + '\n'.join(ls.get('loop_after', [])) + '\n', out[be2].start)]
                before = [T('raw', '\n'.join(ls.get('loop_before', [])) + '\n', out[k].start)] if ls.get('loop_before') else []
                out[k:be2 + 1] = before + head + [out[bo]] + first + out[bo + 1:be2] + tail + [out[be2]] + after
                continue
            if out[k].text == 'for' and ls.get('clone_elems'):
                # R8b: consuming `for PAT in VEC {`  ->  `for __e in VEC.iter() { let PAT = __e.clone();`
                j = k + 1
                while not is_id(out[j], 'in'):
                    if out[j].kind == 'punct' and out[j].text in OPEN:
                        j = match_close(out, j)
                    j += 1
                pat = text_of(out[k + 1:j]).strip()
                # `VEC.into_iter()` -> `VEC`
                sg = [q for q in range(j + 1, bo) if out[q].kind not in ('ws', 'comment', 'doc')]
                if len(sg) >= 4 and is_p(out[sg[-1]], ')') and is_p(out[sg[-2]], '(') and is_id(out[sg[-3]], 'into_iter') and is_p(out[sg[-4]], '.'):
                    del out[sg[-4]:bo]
                    bo = sg[-4]
                rw.rec('R8b', 'for %s in %s' % (pat, text_of(out[j + 1:bo]).strip()), 'for __e in %s.iter() { let %s = __e.clone();' % (text_of(out[j + 1:bo]).strip(), pat))
                out[bo + 1:bo + 1] = [T('raw', ' let %s = __e%d.clone();' % (pat, ordinal), out[bo].start)]
                out[bo:bo] = [T('raw', '.iter() ', out[bo].start)]
                # strip trailing whitespace before .iter()
                out[k + 1:j] = [T('raw', ' __e%d ' % ordinal, out[k].start)]
                bo = find_body_open(out, k + 1)
            if out[k].text == 'for' and ls.get('iter'):
                # for PAT in EXPR  ->  for PAT in it: EXPR
                j = k + 1
                depth = 0
                while not (is_id(out[j], 'in') and depth == 0):
                    if out[j].kind == 'punct' and out[j].text in OPEN:
                        j = match_close(out, j)
                    j += 1
                out[j + 1:j + 1] = [T('raw', ' %s:' % ls['iter'], out[j].start)]
                bo += 1
            be_ = match_close(out, bo)
            if ls.get('loop_after'):
                out[be_ + 1:be_ + 1] = [T('raw', '\n' + '\n'.join(ls['loop_after']) + '\n', out[be_].start)]
            if ls.get('loop_end'):
                out[be_:be_] = [T('raw', '\n' + '\n'.join(ls['loop_end']) + '\n', out[be_].start)]
            if ls.get('loop_begin'):
                out[bo + 1:bo + 1] = [T('raw', '\n' + '\n'.join(ls['loop_begin']) + '\n', out[bo].start)]
            out[bo:bo] = [T('raw', inv + '    ', out[bo].start)]
            if ls.get('loop_before'):
                out[k:k] = [T('raw', '\n'.join(ls['loop_before']) + '\n    ', out[k].start)]
        body = out
    out = []
    for t_ in body:
        if t_.kind == 'r8mark':
            n8 = int(re.search(r'R8:(\d+)', t_.text).group(1))
            out.append(T('raw', '\n        invariant ' + (R8_INV % ((n8,) * R8_INV.count('%d'))) + ',\n        decreases (if __more%d { (__hi%d - __next%d + 1) as int } else { 0 })\n    ' % (n8, n8, n8), t_.start))
        else:
            out.append(t_)
    return out


# R8 auto-invariant: __doneN counts the epochs already handed to the body; they are exactly __loN <= e < __loN + __doneN
R8_INV = ('__more%d ==> __next%d <= __hi%d && __next%d as int == __lo%d + __done%d, __lo%d <= __next%d, __done%d >= 0, '
          '!__more%d ==> __done%d == (if __hi%d >= __lo%d { __hi%d - __lo%d + 1 } else { 0 })')


def desugar_incl_ranges(body, fspec, rw):
    """R8: `for x in A..=B {` -> while loop that advances before the body (so `continue` is safe).
    Applied to every inclusive-range for loop."""
    out = list(body)
    k = 0
    n_done = 0
    while k < len(out):
        t = out[k]
        if is_id(t, 'for') and (prv_sig(out, k) < 0 or not is_p(out[prv_sig(out, k)], '.')):
            j = k + 1
            depth = 0
            while not (is_id(out[j], 'in')):
                j += 1
            bo = find_body_open(out, j + 1)
            rng = out[j + 1:bo]
            idx = [q for q, x in enumerate(rng) if is_p(x, '..=')]
            # only top-level ..=
            top = []
            d = 0
            for q, x in enumerate(rng):
                if x.kind == 'punct' and x.text in OPEN:
                    d += 1
                elif x.kind == 'punct' and x.text in ')]}':
                    d -= 1
                elif is_p(x, '..=') and d == 0:
                    top.append(q)
            if len(top) == 1:
                pat = text_of(out[k + 1:j]).strip()
                lo = text_of(rng[:top[0]]).strip()
                hi = text_of(rng[top[0] + 1:]).strip()
                be = match_close(out, bo)
                n = n_done
                head = ('{ let mut __next%d: u64 = %s; let __hi%d: u64 = %s; let ghost __lo%d: u64 = __next%d; '
                        'let mut __more%d: bool = __next%d <= __hi%d; let ghost mut __done%d: int = 0;\n    ' % (n, lo, n, hi, n, n, n, n, n, n))
                first = (' let %s = __next%d; proof { __done%d = __done%d + 1; } if __next%d == __hi%d { __more%d = false; } else { __next%d = __next%d + 1; }\n'
                         % (pat, n, n, n, n, n, n, n, n))
                rw.rec('R8', text_of(out[k:bo]), 'while-loop over __next%d..=__hi%d' % (n, n))
                new = ([T('raw', head, t.start), T('ident', 'while', t.start), T('raw', ' __more%d ' % n, t.start), T('r8mark', '/*R8:%d*/' % n, t.start)] + [out[bo]]
                       + [T('raw', first, out[bo].start)] + out[bo + 1:be + 1] + [T('raw', ' }', out[be].start)])
                # keep a `while` keyword token so that loop ordinals still count this loop once
                out[k:be + 1] = new
                n_done += 1
                k += 1
                continue
        k += 1
    return out


def splice_after_let(body, fspec, fname):
    """proof lines after the first statement `let [mut] NAME[: T] = ...;` (anchor = the local's name; lost anchor => undecided)"""
    out = list(body)
    for name, lines in fspec.after_let.items():
        found = None
        for k, t in enumerate(out):
            if is_id(t, 'let'):
                j = nxt_sig(out, k)
                if j < len(out) and is_id(out[j], 'mut'):
                    j = nxt_sig(out, j)
                if j < len(out) and is_id(out[j], name):
                    # end of statement: `;` at depth 0
                    q = j
                    while q < len(out):
                        x = out[q]
                        if x.kind == 'punct' and x.text in OPEN:
                            q = match_close(out, q)
                        elif is_p(x, ';'):
                            found = q
                            break
                        q += 1
                    break
        if found is None:
            if name in getattr(fspec, 'optional_lets', {}):
                fspec.lost_optional = getattr(fspec, 'lost_optional', []) + [name]
                continue
            raise ExtractError('after_let anchor `%s` not found in %s' % (name, fname))
        out[found + 1:found + 1] = [T('raw', '\n' + '\n'.join(lines) + '\n', out[found].start)]
    return out


def splice_after_call(body, fspec, fname):
    """proof lines after the statement that contains the K-th call `NAME(` (anchor = callee name + ordinal; the call must be
    a statement of its own or the right-hand side of one: the next `;` at the call's own bracket depth ends it)"""
    out = list(body)
    for (name, ordinal), lines in sorted(fspec.after_call.items(), key=lambda kv: -kv[0][1]):
        hits = [k for k, t in enumerate(out) if is_id(t, name) and nxt_sig(out, k) < len(out) and is_p(out[nxt_sig(out, k)], '(')
                and not (prv_sig(out, k) >= 0 and is_id(out[prv_sig(out, k)], 'fn'))]
        if ordinal >= len(hits):
            raise ExtractError('after_call anchor `%s` #%d not found in %s' % (name, ordinal, fname))
        q = hits[ordinal]
        found = None
        while q < len(out):
            x = out[q]
            if x.kind == 'punct' and x.text in OPEN:
                q = match_close(out, q)
            elif x.kind == 'punct' and x.text in ')]}':
                break
            elif is_p(x, ';'):
                found = q
                break
            q += 1
        if found is None:
            raise ExtractError('after_call anchor `%s` #%d in %s is not a statement of its own' % (name, ordinal, fname))
        out[found + 1:found + 1] = [T('raw', '\n' + '\n'.join(lines) + '\n', out[found].start)]
    return out


def rewrite_for_filter(body, rw):
    """R8c: `for X in EXPR.iter().filter(|X| P) {B}` -> `for X in EXPR.iter() { if P { B } }`
    (only when the closure parameter has the loop variable's name; otherwise left alone)"""
    out = list(body)
    k = 0
    while k < len(out):
        if is_id(out[k], 'for') and (prv_sig(out, k) < 0 or not is_p(out[prv_sig(out, k)], '.')):
            j = k + 1
            while j < len(out) and not is_id(out[j], 'in'):
                j += 1
            var = text_of(out[k + 1:j]).strip()
            bo = find_body_open(out, j + 1)
            sg = [q for q in range(j + 1, bo) if out[q].kind not in ('ws', 'comment', 'doc')]
            # ... . filter ( | var | P )
            if len(sg) >= 6 and is_p(out[sg[-1]], ')'):
                op = None
                for q in sg:
                    if is_p(out[q], '(') and match_close(out, q) == sg[-1]:
                        op = q
                if op is not None:
                    pi = sg.index(op)
                    if pi >= 2 and is_id(out[sg[pi - 1]], 'filter') and is_p(out[sg[pi - 2]], '.'):
                        inner = [q for q in range(op + 1, sg[-1]) if out[q].kind not in ('ws', 'comment', 'doc')]
                        if len(inner) >= 4 and is_p(out[inner[0]], '|') and is_id(out[inner[1]], var) and is_p(out[inner[2]], '|'):
                            pred = text_of(out[inner[3]:sg[-1]]).strip()
                            rw.rec('R8c', 'for %s in ..filter(|%s| %s)' % (var, var, pred), 'for %s in .. { if %s { .. } }' % (var, pred))
                            be = match_close(out, bo)
                            guard = T('raw', ' if %s {' % pred, out[bo].start)
                            new = out[:sg[pi - 2]] + [T('ws', ' ', out[bo].start)] + [out[bo]] + [guard] + out[bo + 1:be] + [T('raw', '} ', out[be].start)] + out[be:]
                            out = new
        k += 1
    return out


def rewrite_clone_from(body, rw):
    """R5d: `RECV.clone_from(&SRC);` -> `RECV = SRC.clone();` (clone_from is an allocation-reusing clone)"""
    out = list(body)
    k = 0
    while k < len(out):
        if is_id(out[k], 'clone_from') and prv_sig(out, k) >= 0 and is_p(out[prv_sig(out, k)], '.'):
            dot = prv_sig(out, k)
            op = nxt_sig(out, k)
            if op < len(out) and is_p(out[op], '('):
                cl = match_close(out, op)
                # statement start
                j = dot - 1
                while j >= 0 and not (out[j].kind == 'punct' and out[j].text in (';', '{', '}')):
                    j -= 1
                recv = text_of(out[j + 1:dot]).strip()
                arg = text_of(out[op + 1:cl]).strip()
                if arg.startswith('&'):
                    arg = arg[1:].strip()
                new = '\n        %s = %s.clone()' % (recv, arg)
                rw.rec('R5d', '%s.clone_from(&%s)' % (recv, arg), '%s = %s.clone()' % (recv, arg))
                out[j + 1:cl + 1] = [T('raw', new, out[dot].start)]
                k = j + 2
                continue
        k += 1
    return out


def anf_split_try_map_filter(body, rw):
    """R5c: `let X[: T] = RECV.iter_try_map(A)?.into_iter_filter(B);`
         -> `let X__mapped = RECV.iter_try_map(A)?; let X[: T] = X__mapped.into_iter_filter(B);`
    (names the intermediate vector of a method chain; evaluation order unchanged)"""
    out = list(body)
    k = 0
    while k < len(out):
        t = out[k]
        if is_id(t, 'into_iter_filter'):
            # walk back: `. into_iter_filter` preceded by `?` preceded by `)` of iter_try_map(...)
            d = prv_sig(out, k)
            q = prv_sig(out, d) if d >= 0 else -1
            if d >= 0 and is_p(out[d], '.') and q >= 0 and is_p(out[q], '?'):
                # find the `let` that starts this statement
                j = q
                depth = 0
                let_i = None
                while j >= 0:
                    x = out[j]
                    if x.kind == 'punct' and x.text in ')]}':
                        depth += 1
                    elif x.kind == 'punct' and x.text in '([{':
                        depth -= 1
                        if depth < 0:
                            break
                    elif depth == 0 and is_p(x, ';'):
                        break
                    elif depth == 0 and is_id(x, 'let'):
                        let_i = j
                        break
                    j -= 1
                if let_i is not None and 'iter_try_map' in text_of(out[let_i:q]):
                    nm_i = nxt_sig(out, let_i)
                    if is_id(out[nm_i], 'mut'):
                        nm_i = nxt_sig(out, nm_i)
                    name = out[nm_i].text
                    eq = nm_i
                    while not is_p(out[eq], '='):
                        eq += 1
                    rw.rec('R5c', 'let %s = ..iter_try_map(..)?.into_iter_filter(..)' % name, 'let %s__mapped = ..?; let %s = %s__mapped.into_iter_filter(..)' % (name, name, name))
                    tail = out[d:]
                    new = ([T('raw', 'let %s__mapped =' % name, out[let_i].start)] + out[eq + 1:q + 1] + [T('raw', '; ', out[q].start)]
                           + out[let_i:eq + 1] + [T('raw', ' %s__mapped' % name, out[eq].start)])
                    out = out[:let_i] + new + tail
                    k = let_i + len(new) + 2
                    continue
        k += 1
    return out


def gen_derives(name, kinds, generics=''):
    s = ''
    if 'clone' in kinds:
        s += ('impl Clone for %s {\n    #[verifier::external_body]\n    fn clone(&self) -> (r: %s) ensures r == *self { unimplemented!() }\n}\n'
              % (name, name))
    if 'eq' in kinds:
        s += ('impl PartialEq for %s {\n    #[verifier::external_body]\n    fn eq(&self, o: &%s) -> (r: bool) ensures r == (*self == *o) { unimplemented!() }\n}\n'
              'impl PartialEqSpecImpl for %s {\n    open spec fn obeys_eq_spec() -> bool { true }\n    open spec fn eq_spec(&self, o: &%s) -> bool { *self == *o }\n}\n'
              % (name, name, name, name))
    if 'tostr' in kinds:
        s += ('impl ToStr_ for %s {\n    #[verifier::external_body]\n    fn to_str_(&self) -> (r: Str) { unimplemented!() }\n}\n' % name)
    return s


def build_unit(unit, outdir):
    em = Emitter()
    meta = {'unit': unit['name'], 'items': [], 'rules': []}
    for sh in unit.get('shims', []):
        p = os.path.join(VERIF, 'shim', sh)
        em.emit('// ---------------- shim: %s' % sh)
        em.emit(open(p).read(), origin=None)
    specs = {}
    for sp in unit.get('spec_files', [unit['name'] + '.spec']):
        parse_spec(os.path.join(VERIF, 'contracts', sp), specs)
    used_specs = set()
    em.emit('verus! {')
    all_items = []
    for inc in unit.get('include', []):
        all_items += json.load(open(os.path.join(VERIF, 'units', inc)))['items']
    all_items += unit['items']
    for it in all_items:
        path = resolve_src(it['src'])
        text, toks = load(path)
        kind, name = it['kind'], it['name']
        b, e, kwi = find_item(path, kind, name, it.get('impl_of'), it.get('nth', 0))
        item_toks = [Tok(t_.kind, t_.text, t_.start, t_.end) for t_ in toks[b:e + 1]]  # copies: rewrites must not touch the cached source tokens
        sha = hashlib.sha256(text[toks[b].start:toks[e].end].encode()).hexdigest()[:16]
        log = []
        rw = Rewriter(unit, it, log)
        item_toks = strip_trivia(item_toks)
        item_toks, froms = rw.strip_attrs(item_toks)
        item_toks = rw.basic(item_toks, in_const=(kind == 'const'))
        if it.get('rename'):
            for tk in item_toks:
                if tk.kind == 'ident' and tk.text in it['rename']:
                    tk.text = it['rename'][tk.text]
            name = it['rename'].get(name, name)
        for (pat, rep) in it.get('patches', []):
            txt = text_of(item_toks)
            if pat not in txt:
                raise ExtractError('patch pattern not found in %s %s: %r' % (kind, name, pat))
            rw.rec('Rpatch', pat, rep)
            item_toks = lex(txt.replace(pat, rep))
            for tk in item_toks:
                tk.start = toks[b].start
        src_line = line_of(text, toks[b].start)
        orig_ntok = len([t for t in toks[b:e + 1] if t.kind not in ('ws', 'comment', 'doc')])
        em.emit('// ---- %s %s  <- %s:%d sha256:%s' % (kind, name, it['src'], src_line, sha))
        start_line = em.lineno
        label = (it.get('impl_of', '').split(':')[0] + '::' if it.get('impl_of') else '') + name
        if kind == 'fn':
            fspec = specs.get(label) or specs.get(name)
            if fspec:
                used_specs.add(fspec.name)
            if it.get('impl_of'):
                ity, _, itr = it['impl_of'].partition(':')
                if it.get('emit_impl'):
                    # trait impl method emitted as an inherent method (trait indirection dropped, recorded as R16)
                    rw.rec('R16', 'impl %s for %s' % (itr, ity), 'impl %s' % it['emit_impl'])
                    ity, itr = it['emit_impl'], ''
                em.emit('impl %s%s {' % ((itr + ' for ') if itr else '', ity))
            emit_fn(em, unit['name'], it, item_toks, fspec, path, text, rw)
            if it.get('impl_of'):
                em.emit('}')
        elif kind in ('struct', 'enum'):
            ttxt = text_of(item_toks)
            if it.get('ownable_execute'):
                # #[cw_ownable_execute] adds this variant (cw-ownable-derive)
                idx = ttxt.rindex('}')
                ttxt = ttxt[:idx] + '    UpdateOwnership(cw_ownable::Action),\n' + ttxt[idx:]
                rw.rec('R1', '#[cw_ownable_execute]', 'variant UpdateOwnership(cw_ownable::Action)')
            if it.get('ownable_query'):
                # #[cw_ownable_query] adds this variant (cw-ownable-derive)
                idx = ttxt.rindex('}')
                ttxt = ttxt[:idx] + '    Ownership {},\n' + ttxt[idx:]
                rw.rec('R1', '#[cw_ownable_query]', 'variant Ownership {}')
            if not ttxt.lstrip().startswith('pub'):
                ttxt = 'pub ' + ttxt
            em.emit(ttxt, origin=(path, src_line))
            em.emit(gen_derives(name, it.get('derive', ['clone', 'eq', 'tostr'])))
            if it.get('error_enum'):
                emit_error_froms(em, name, text_of(strip_trivia(toks[b:e + 1])))
        else:
            if kind == 'const':
                ctxt = re.sub(r'&\s*str\b', "&'static str", text_of(item_toks))
                if not ctxt.lstrip().startswith('pub'):
                    ctxt = 'pub ' + ctxt
                m9 = re.match(r'^\s*pub\s+const\s+(\w+)\s*:\s*([\w:<>]+)\s*=\s*(Uint128::new|Decimal::percent)\(\s*([0-9_a-z]+)\s*\)\s*;\s*$', ctxt, re.S)
                if m9:
                    nm, ty, ctor, lit = m9.groups()
                    ens = ('%s == (Uint128 { v: %s })' % (nm, lit)) if ctor == 'Uint128::new' else ('%s@ == (%s as nat) * 10_000_000_000_000_000' % (nm, lit))
                    new = 'pub exec const %s: %s ensures %s { %s(%s) }' % (nm, ty, ens, ctor, lit)
                    rw.rec('R9', ctxt, new)
                    ctxt = new
                item_toks = [T('raw', ctxt, toks[b].start)]
            em.emit_tokens(item_toks, path, text)
        em.fn_ranges.append((start_line, em.lineno - 1, label, it['src'], src_line, kind))
        meta['items'].append({'kind': kind, 'name': label, 'src': it['src'], 'line': src_line, 'sha256_16': sha,
                              'tokens': orig_ntok, 'rules': log})
    em.emit('} // verus!')
    for sp in unit.get('lemma_imports', []):
        # lemmas proved in another unit: imported as assumptions (bodies not re-verified, no obligations registered)
        p = os.path.join(VERIF, 'lemmas', sp)
        em.emit('// ---------------- lemmas (imported, proved in their own unit): %s' % sp)
        src = open(p).read()
        src = re.sub(r'(?m)^(\s*)((pub(\([a-z]+\))?\s+)?(broadcast\s+)?proof fn\s)', r'\1#[verifier::external_body]\n\1\2', src)
        em.emit(src)
        em.imported_lemmas.append(sp)
    for sp in unit.get('lemma_files', []):
        p = os.path.join(VERIF, 'lemmas', sp)
        em.emit('// ---------------- lemmas: %s' % sp)
        base = em.lineno
        src = open(p).read()
        em.emit(src)
        collect_lemma_obligations(em, unit['name'], sp, src, base)
    for ge in unit.get('generated_lemmas', []):
        # R19: obligations generated from the storage constructors of the working tree (vlib/nsgen.py)
        import nsgen
        src, summary = nsgen.generate(ge)
        em.emit('// ---------------- generated lemmas (R19): %s' % ge['prefix'])
        base = em.lineno
        em.emit(src)
        collect_lemma_obligations(em, unit['name'], 'generated:' + ge['prefix'], src, base)
        meta.setdefault('generated', []).append(summary)
        meta['rules'].append({'rule': 'R19', 'src': ge['src'], 'items': len(summary['items']), 'namespaces': len(summary['namespaces'])})
    for pt in em.parts:
        em.emit('// ---------------- %%opt split: %s proves a subset of the ensures of %s over the same extracted body' % (pt['part'], pt['fn']))
        em.emit('mod %s_mod {' % pt['part'])
        em.emit('use super::*;')
        em.emit('verus! {')
        base = em.lineno
        for ln in pt['lines']:
            em.emit(ln)
        end = em.lineno - 1
        em.emit('} // verus!')
        em.emit('}')
        src_line = 0
        for (a, b, nm, src, sl, kind) in em.fn_ranges:
            if nm == pt['fn'] and kind == 'fn':
                src_line = sl
        em.fn_ranges.append((base, end, pt['fn'], pt['src'], src_line, 'fn-part'))
        for ob in em.obls:
            if ob['fn'] != pt['fn'] or ob['unit'] != pt['unit'] or ob.get('gen_start') is not None:
                continue
            if ob.get('split') and ob['label'] in pt['clause_lines']:
                a, b = pt['clause_lines'][ob['label']]
                ob['gen_start'], ob['gen_end'] = base + a, base + b
            elif not ob.get('split') and pt['first'] and ob.get('text'):
                for k in range(base, end + 1):
                    if ob['text'] + ',' == em.lines[k - 1].strip():
                        ob['gen_start'] = ob['gen_end'] = k
                        break
    for ob in em.obls:
        if ob.get('gen_start') is None and ob.get('kind') != 'lemma' and any(pt['fn'] == ob['fn'] for pt in em.parts):
            raise ExtractError('could not place clause %s' % ob['name'])
    if em.twins:
        em.emit('// ---------------- vacuity twins (each MUST fail: `ensures false` behind the same requires and body)')
        em.emit('mod vacuity_twins {')
        em.emit('use super::*;')
        em.emit('verus! {')
        for tw in em.twins:
            vstart = em.lineno
            em.emit(tw['text'])
            em.vacuity.append({'fn': tw['fn'], 'twin': tw['twin'], 'gen_start': vstart, 'gen_end': em.lineno - 1})
        em.emit('} // verus!')
        em.emit('}')
    em.emit('fn main() {}')
    own = unit['name'] + '.spec'
    missing = [k for k in specs if k not in used_specs and own in specs[k].files]
    if missing:
        raise ExtractError('spec sections without an extracted function: %s' % missing)
    os.makedirs(outdir, exist_ok=True)
    out_rs = os.path.join(outdir, unit['name'] + '.rs')
    open(out_rs, 'w').write('\n'.join(em.lines) + '\n')
    meta['obligations'] = em.obls
    meta['fn_ranges'] = em.fn_ranges
    meta['vacuity'] = em.vacuity
    meta['degraded'] = em.degraded
    meta['assumed_contracts'] = em.assumed_contracts
    meta['imported_lemmas'] = em.imported_lemmas
    meta['linemap'] = {str(k): v for k, v in em.linemap.items()}
    json.dump(meta, open(os.path.join(outdir, unit['name'] + '.map.json'), 'w'), indent=1)
    return out_rs, meta


LEMMA_TAG = re.compile(r'//\s*@lemma\s+([A-Za-z0-9_.\-]+)\s*\[([A-Z0-9, ]*)\]')


def _fn_extent(lines, i):
    """last line index of the proof/spec fn starting at line i: its body is the first `{` met outside parentheses
    (so `ensures ({ .. })` blocks are not mistaken for the body); string/char literals in lemma files hold no braces."""
    par = 0
    depth = 0
    started = False
    j = i
    while j < len(lines):
        ln = lines[j]
        if ln.lstrip().startswith('//'):
            j += 1
            continue
        k = 0
        while k < len(ln):
            ch = ln[k]
            if ch == '/' and ln[k:k + 2] == '//':
                break
            if not started:
                if ch in '([':
                    par += 1
                elif ch in ')]':
                    par -= 1
                elif ch == '{' and par == 0:
                    started = True
                    depth = 1
                elif ch == ';' and par == 0:
                    return j  # declaration without body (uninterp spec fn)
            else:
                if ch == '{':
                    depth += 1
                elif ch == '}':
                    depth -= 1
                    if depth == 0:
                        return j
            k += 1
        j += 1
    return len(lines) - 1


def collect_lemma_obligations(em, unit, fname, src, base):
    """`// @lemma name [C01,C02]` on the line before `proof fn name` registers a lemma obligation."""
    lines = src.split('\n')
    for i, ln in enumerate(lines):
        m = re.search(r'\b(proof|spec) fn\s+([A-Za-z0-9_]+)', ln)
        if m and not ln.lstrip().startswith('//'):
            j = _fn_extent(lines, i)
            em.fn_ranges.append((base + i, base + j, m.group(2), 'lemmas/' + fname, i + 1, 'lemma-fn'))
    for i, ln in enumerate(lines):
        m = LEMMA_TAG.search(ln)
        if m:
            # extent: from the tag line to the close of the next proof fn's body
            j = i + 1
            while j < len(lines) and not re.search(r'\bproof fn\s', lines[j]):
                j += 1
            j = _fn_extent(lines, j) if j < len(lines) else i
            tags = [x.strip() for x in m.group(2).split(',') if x.strip()]
            em.obls.append({'name': '%s::lemma::%s' % (unit, m.group(1)), 'unit': unit, 'fn': m.group(1), 'label': 'lemma',
                            'tags': tags, 'kind': 'lemma', 'gen_start': base + i, 'gen_end': base + j, 'file': 'lemmas/' + fname})
            em.fn_ranges.append((base + i, base + j, m.group(1), 'lemmas/' + fname, i + 1, 'lemma'))


def emit_error_froms(em, name, raw):
    """`Variant(#[from] T)` in a thiserror enum => `impl From<T> for Enum`."""
    for m in re.finditer(r'([A-Za-z0-9_]+)\s*\(\s*#\[from\]\s*([A-Za-z0-9_:]+)\s*\)', raw):
        var, ty = m.group(1), m.group(2).split('::')[-1]
        em.emit('impl From<%s> for %s {\n    fn from(e: %s) -> (r: %s) ensures r == %s::%s(e) { %s::%s(e) }\n}' % (ty, name, ty, name, name, var, name, var))
        em.emit('impl FromSpecImpl<%s> for %s {\n    open spec fn obeys_from_spec() -> bool { true }\n    open spec fn from_spec(e: %s) -> %s { %s::%s(e) }\n}' % (ty, name, ty, name, name, var))


def emit_fn(em, unit, it, toks, fspec, path, src_text, rw):
    name = it['name']
    # locate params close and body open
    k = 0
    while not is_id(toks[k], 'fn'):
        k += 1
    k = nxt_sig(toks, k)  # name
    k = nxt_sig(toks, k)
    if is_p(toks[k], '<'):
        from rustlex import match_angle
        k = nxt_sig(toks, match_angle(toks, k))
    if not is_p(toks[k], '('):
        raise ExtractError('unexpected signature for ' + name)
    pc = match_close(toks, k)
    bo = find_body_open(toks, pc + 1)
    be = match_close(toks, bo)
    head = toks[:pc + 1]
    mid = toks[pc + 1:bo]
    body = toks[bo + 1:be]
    # return type / where
    mids = text_of(mid)
    where = ''
    wm = re.search(r'\bwhere\b', mids)
    if wm:
        where = mids[wm.start():].strip()
        mids = mids[:wm.start()]
    rt = mids.strip()
    retname = (fspec.ret if fspec and fspec.ret else 'ret')
    head_txt = text_of(head)
    if it.get('make_pub') and not head_txt.lstrip().startswith('pub'):
        head_txt = 'pub ' + head_txt
    split = bool(fspec and fspec.opts.get('split') and not it.get('external_body'))
    if split and it.get('impl_of'):
        raise ExtractError('%opt split is only supported on free functions: ' + name)
    if it.get('external_body') or split:
        em.emit('#[verifier::external_body]')
    if fspec and fspec.opts.get('loop_isolation') == 'false' and not (split or it.get('external_body')):
        em.emit('#[verifier::loop_isolation(false)]')
    if fspec and fspec.opts.get('rlimit') and not split:
        em.emit('#[verifier::rlimit(%s)]' % fspec.opts['rlimit'])
    em.emit_tokens([T('raw', head_txt, toks[0].start)], path, src_text)
    if rt.startswith('->'):
        em.lines[-1] += ' -> (%s: %s)' % (retname, rt[2:].strip())
    if where:
        em.emit('    ' + where)
    lname = (it.get('impl_of', '').split(':')[0] + '::' if it.get('impl_of') else '') + name
    if fspec:
        n_before = len(em.obls)
        emit_clauses(em, 'requires', fspec.requires, unit, lname, 'requires')
        emit_clauses(em, 'ensures', fspec.ensures, unit, lname, 'ensures')
        if it.get('external_body'):
            em.assumed_contracts.append({'fn': lname, 'clauses': [o['label'] for o in em.obls[n_before:]], 'spec_files': fspec.files})
            del em.obls[n_before:]
        if fspec.opts.get('decreases'):
            em.emit('    decreases ' + fspec.opts['decreases'])
    em.emit('{')
    if it.get('external_body'):
        em.emit('    unimplemented!()')
        em.emit('}')
        return
    if split:
        # the primary keeps the whole contract for its callers (and for its own recursive calls) but its body is proved in
        # the part copies below: same requires, same mechanically extracted body, each with a subset of the ensures clauses
        em.emit('    unimplemented!()')
        em.emit('}')
        for ob in em.obls[n_before:]:
            if ob['kind'] == 'ensures':
                ob['gen_start'] = ob['gen_end'] = None
                ob['split'] = True
    if fspec and fspec.body_start and not split:
        for ln in fspec.body_start:
            em.emit(ln)
    if fspec and fspec.opts.get('split_tail'):
        # R5e: tail expression `E.NAME()` -> `let __tail_in = E; let __tail_out = __tail_in.NAME(); __tail_out` (gives hints an anchor)
        nm = fspec.opts['split_tail']
        sg = [q for q in range(len(body)) if body[q].kind not in ('ws', 'comment', 'doc')]
        if sg and body[sg[-1]].kind == 'raw' and body[sg[-1]].text.strip() == '.%s()' % nm:
            rw.rec('R5e', 'E.%s()' % nm, 'let __tail_in = E; let __tail_out = __tail_in.%s(); __tail_out' % nm)
            from rustlex import lex as _lex
            body = (_lex('let __tail_in = ') + body[:sg[-1]] + _lex(';\n    let __tail_out = __tail_in.%s();\n    __tail_out\n' % nm))
        elif len(sg) >= 4 and is_p(body[sg[-1]], ')') and is_p(body[sg[-2]], '(') and is_id(body[sg[-3]], nm) and is_p(body[sg[-4]], '.'):
            rw.rec('R5e', 'E.%s()' % nm, 'let __tail_in = E; let __tail_out = __tail_in.%s(); __tail_out' % nm)
            from rustlex import lex as _lex
            body = (_lex('let __tail_in = ') + body[:sg[-4]] + _lex(';\n    let __tail_out = __tail_in.%s();\n    __tail_out\n' % nm))
        else:
            raise ExtractError('split_tail: the body of %s does not end in .%s(): %r' % (name, nm, [(body[q].kind, body[q].text) for q in sg[-5:]]))
    body = anf_split_try_map_filter(body, rw)
    body = rewrite_clone_from(body, rw)
    body = rewrite_for_filter(body, rw)
    if fspec and fspec.after_let:
        fspec.lost_optional = []
        body = splice_after_let(body, fspec, lname)
        if fspec.lost_optional:
            keeps = set()
            for nm in fspec.lost_optional:
                keeps |= set(fspec.optional_lets.get(nm, []))
            em.degraded.append({'unit': unit, 'fn': lname, 'lost': list(fspec.lost_optional), 'keeps': sorted(keeps)})
    if fspec and fspec.after_call:
        body = splice_after_call(body, fspec, lname)
    body = desugar_incl_ranges(body, fspec, rw)
    body = splice_body(em.obls, body, fspec, unit, lname, rw)
    # register loop invariants / closure clauses as obligations (line-approximate: whole function)
    if fspec:
        for ordinal, ls in fspec.loops.items():
            for (label, tags, c) in ls.get('invariant', []) or []:
                if label:
                    em.obls.append({'name': '%s::%s::loop%d.%s' % (unit, lname, ordinal, label), 'unit': unit, 'fn': lname,
                                    'label': label, 'tags': tags, 'kind': 'invariant', 'text': ' '.join(x.strip() for x in c.rstrip().rstrip(',').split('\n')),
                                    'gen_start': None, 'gen_end': None})
        for ordinal, cs in fspec.closures.items():
            for kw in ('requires', 'ensures'):
                for (label, tags, c) in cs.get(kw, []) or []:
                    if label:
                        em.obls.append({'name': '%s::%s::closure%d.%s' % (unit, lname, ordinal, label), 'unit': unit, 'fn': lname,
                                        'label': label, 'tags': tags, 'kind': 'closure-' + kw, 'text': ' '.join(x.strip() for x in c.rstrip().rstrip(',').split('\n')),
                                        'gen_start': None, 'gen_end': None})
    if split:
        groups = [[x.strip() for x in g.split('+') if x.strip()] for g in fspec.opts['split'].split('|')]
        named = set(x for g in groups for x in g)
        labels = [l for (l, _t, _c) in fspec.ensures if l]
        for x in named:
            if x not in labels:
                raise ExtractError('%%opt split of %s names an unknown ensures label: %s' % (name, x))
        groups = [[l for (l, _t, _c) in fspec.ensures if l not in named]] + groups
        unl = [c for c in fspec.ensures if not c[0]]
        for gi, g in enumerate(groups):
            pl = []
            if fspec.opts.get('rlimit'):
                pl.append('#[verifier::rlimit(%s)]' % fspec.opts['rlimit'])
            if fspec.opts.get('loop_isolation') == 'false':
                pl.append('#[verifier::loop_isolation(false)]')
            ph = re.sub(r'\bfn\s+' + re.escape(name) + r'\b', 'fn __part%d_%s' % (gi, name), head_txt, count=1)
            if rt.startswith('->'):
                ph += ' -> (%s: %s)' % (retname, rt[2:].strip())
            pl += ph.split('\n')
            if where:
                pl += ('    ' + where).split('\n')
            if fspec.requires:
                pl.append('    requires')
                for (label, tags, txt) in fspec.requires:
                    pl.append('        ' + ' '.join(x.strip() for x in txt.rstrip().rstrip(',').split('\n')) + ',')
            cl = {}
            mine = [c for c in fspec.ensures if (c[0] in g) or (gi == 0 and not c[0])]
            if mine:
                pl.append('    ensures')
                for (label, tags, txt) in mine:
                    a = len(pl)
                    for ln in txt.rstrip().rstrip(',').split('\n'):
                        pl.append('        ' + ln.strip())
                    pl[-1] += ','
                    if label:
                        cl[label] = (a, len(pl) - 1)
            if fspec.opts.get('decreases'):
                pl.append('    decreases ' + fspec.opts['decreases'])
            pl.append('{')
            pl += list(fspec.body_start)
            bstart = len(pl)
            pl += text_of(body).split('\n')
            pl.append('}')
            em.parts.append({'fn': lname, 'unit': unit, 'part': '__part%d_%s' % (gi, name), 'lines': pl, 'clause_lines': cl, 'body_rel': bstart,
                             'src': it['src'], 'first': gi == 0})
    first = em.lineno
    if not split:
        em.emit_tokens(body, path, src_text)
        em.emit('}')
    # resolve line ranges of invariant / closure clauses by text search inside the emitted body
    for ob in em.obls:
        if split:
            break
        if ob.get('gen_start') is None and ob['fn'] == lname and ob['unit'] == unit:
            for ln in range(first, em.lineno):
                if ob['text'] and ob['text'] + ',' == em.lines[ln - 1].strip():
                    ob['gen_start'] = ob['gen_end'] = ln
                    break
            if ob.get('gen_start') is None:
                raise ExtractError('could not place clause %s' % ob['name'])
    # ---- vacuity twin: same signature, same requires, same body, `ensures false`; it MUST fail.
    # Twins live in their own module (own Z3 context, small rlimit) so they do not slow the real proofs.
    if fspec and not it.get('no_vacuity_twin'):
        tw = []
        if it.get('impl_of'):
            ity, _, itr = it['impl_of'].partition(':')
            if it.get('emit_impl'):
                ity, itr = it['emit_impl'], ''
            tw.append('impl %s%s {' % ((itr + ' for ') if itr else '', ity))
        tw.append('#[verifier::rlimit(1)]')
        if fspec.opts.get('loop_isolation') == 'false':
            tw.append('#[verifier::loop_isolation(false)]')
        twin_head = re.sub(r'\bfn\s+' + re.escape(name) + r'\b', 'fn __vac_' + name, head_txt, count=1)
        if rt.startswith('->'):
            twin_head += ' -> (%s: %s)' % (retname, rt[2:].strip())
        tw.append(twin_head)
        if where:
            tw.append('    ' + where)
        if fspec.requires:
            tw.append('    requires')
            for (label, tags, txt) in fspec.requires:
                tw.append('        ' + ' '.join(x.strip() for x in txt.rstrip().rstrip(',').split('\n')) + ',')
        tw.append('    ensures false,')
        if fspec.opts.get('decreases'):
            tw.append('    decreases ' + fspec.opts['decreases'])
        tw.append('{')
        tw += list(fspec.body_start)
        tw.append(text_of(body))
        tw.append('}')
        if it.get('impl_of'):
            tw.append('}')
        em.twins.append({'fn': lname, 'twin': '__vac_' + name, 'text': '\n'.join(tw)})
