"""Mechanical extraction of Rust items from /repo (and from the mantra-dex-std dependency
source in the cargo registry), rewrite rules R1..R16, and contract splicing.

Nothing here knows what any function is *supposed* to do: it locates items by (kind, name),
applies syntax-directed rewrites (each recorded), and splices the contract text from
/verif/contracts/<unit>.spec at four kinds of anchors only: the signature, the k-th loop,
the k-th closure, and the body start.
"""
import glob
import hashlib
import os
import re

from rustlex import lex, Tok, sig, match_close, match_angle, OPEN

REPO = os.environ.get('VERIF_REPO', '/repo')


class ExtractError(Exception):
    pass


def registry_dir(crate):
    c = sorted(glob.glob(os.path.expanduser('~/.cargo/registry/src/*/' + crate)))
    if not c:
        raise ExtractError('dependency source not found in cargo registry: ' + crate)
    return c[-1]


def resolve_src(spec):
    """'repo:contracts/x/src/y.rs' or 'dep:mantra-dex-std-3.1.0/src/fee.rs'"""
    kind, rel = spec.split(':', 1)
    if kind == 'repo':
        return os.path.join(REPO, rel)
    if kind == 'dep':
        crate, sub = rel.split('/', 1)
        return os.path.join(registry_dir(crate), sub)
    raise ExtractError('bad src ' + spec)


_cache = {}


def load(path):
    if path not in _cache:
        if not os.path.exists(path):
            raise ExtractError('source file missing: ' + path)
        text = open(path).read()
        _cache[path] = (text, lex(text))
    return _cache[path]


def line_of(text, pos):
    return text.count('\n', 0, pos) + 1


# ----------------------------------------------------------------------------- item location
ITEM_KW = {'fn': 'fn', 'struct': 'struct', 'enum': 'enum', 'const': 'const', 'type': 'type', 'trait': 'trait'}


def find_item(path, kind, name, impl_of=None, nth=0):
    """Return (first_tok_index, last_tok_index) of the item (without leading attributes)."""
    text, toks = load(path)
    s = sig(toks)
    depth = 0
    ctx = []  # stack of ('impl', TypeName) / ('mod', name) / ('other',)
    found = []
    i = 0
    pending = None
    while i < len(s):
        t = toks[s[i]]
        if t.kind == 'punct' and t.text == '{':
            ctx.append(pending or ('other',))
            pending = None
            i += 1
            continue
        if t.kind == 'punct' and t.text == '}':
            if ctx:
                ctx.pop()
            i += 1
            continue
        in_impl = [c for c in ctx if c[0] == 'impl']
        only_mods = all(c[0] in ('mod', 'impl') for c in ctx)
        if t.kind == 'ident' and t.text == 'impl' and only_mods:
            # impl [<..>] [Trait for] Type [<..>] {
            j = i + 1
            names = []
            while j < len(s) and not (toks[s[j]].kind == 'punct' and toks[s[j]].text == '{'):
                if toks[s[j]].kind == 'ident':
                    names.append(toks[s[j]].text)
                j += 1
            ty = None
            if 'for' in names:
                rest = names[names.index('for') + 1:]
                ty = rest[0] if rest else None
                tr = names[names.index('for') - 1]
                pending = ('impl', ty, tr)
            else:
                ty = names[0] if names else None
                pending = ('impl', ty, None)
            i = j
            continue
        if t.kind == 'ident' and t.text == 'mod' and only_mods:
            pending = ('mod', toks[s[i + 1]].text)
            i += 2
            continue
        if t.kind == 'ident' and t.text in ITEM_KW and only_mods and i + 1 < len(s):
            nm = toks[s[i + 1]]
            kw = t.text
            # `const fn` / `const NAME`
            if kw == 'const' and nm.kind == 'ident' and nm.text == 'fn':
                i += 1
                continue
            if nm.kind == 'ident' and kw == kind and nm.text == name:
                cur_impl = in_impl[-1][1] if in_impl else None
                cur_trait = in_impl[-1][2] if in_impl else None
                want_ty, want_tr = (impl_of.split(':') + [None])[:2] if impl_of else (None, None)
                if (impl_of is None and cur_impl is None) or (impl_of is not None and cur_impl == want_ty and (want_tr is None or want_tr == cur_trait)):
                    # skip modules named test/tests
                    if not any(c[0] == 'mod' and c[1] in ('test', 'tests') for c in ctx):
                        found.append(i)
        i += 1
    if len(found) <= nth:
        raise ExtractError('item not found: %s %s%s in %s' % (kind, (impl_of + '::') if impl_of else '', name, path))
    i = found[nth]
    # walk back over visibility / qualifiers
    b = i
    while b > 0:
        p = toks[s[b - 1]]
        if p.kind == 'ident' and p.text in ('pub', 'async', 'unsafe', 'const', 'default'):
            b -= 1
        elif p.kind == 'punct' and p.text == ')' and b >= 4 and toks[s[b - 4]].text == 'pub':
            b -= 4  # pub(crate)
        else:
            break
    # find the end
    j = i + 2
    end = None
    while j < len(s):
        t = toks[s[j]]
        if t.kind == 'punct':
            if t.text == '<' and kind in ('fn', 'struct', 'enum', 'type', 'trait') and j == i + 2:
                j = s.index(match_angle(toks, s[j])) + 1
                continue
            if t.text == '(' or t.text == '[':
                j = s.index(match_close(toks, s[j])) + 1
                continue
            if t.text == '{':
                if kind == 'const':
                    j = s.index(match_close(toks, s[j])) + 1
                    continue
                end = match_close(toks, s[j])
                break
            if t.text == ';':
                end = s[j]
                break
        j += 1
    if end is None:
        raise ExtractError('unterminated item %s %s' % (kind, name))
    return s[b], end, s[i]


# ----------------------------------------------------------------------------- token utilities
def T(kind, text, pos):
    return Tok(kind, text, pos, pos)


def text_of(toks):
    return ''.join(t.text for t in toks)


def strip_trivia(toks, keep_comments=False):
    out = []
    for t in toks:
        if t.kind == 'doc' or (t.kind == 'comment' and not keep_comments):
            continue
        out.append(t)
    return out


def sig_idx(toks):
    return [k for k, t in enumerate(toks) if t.kind not in ('ws', 'comment', 'doc')]


def is_p(t, text):
    return t.kind == 'punct' and t.text == text


def is_id(t, text=None):
    return t.kind == 'ident' and (text is None or t.text == text)


MODULE_NAMES = {'commands', 'queries', 'helpers', 'manager', 'liquidity', 'swap', 'router', 'farm', 'position', 'state',
                'contract', 'math', 'perform_swap', 'mantra_dex_std', 'lp_common', 'tokenfactory', 'coin', 'common',
                'epoch_manager', 'farm_manager', 'pool_manager', 'fee', 'create_denom', 'mint', 'burn', 'utils', 'constants',
                'crate', 'error', 'update_config', 'cosmwasm_std', 'cw_storage_plus'}


ITER_ADAPTERS = {'position', 'any', 'all', 'find', 'max', 'min'}


class Rewriter:
    """Applies the rewrite rules to the token list of one item and records each firing."""

    def __init__(self, unit, item, log):
        self.unit = unit
        self.item = item
        self.log = log

    def rec(self, rule, before, after):
        self.log.append({'rule': rule, 'before': before.strip()[:160], 'after': after.strip()[:160]})

    # R1 -----------------------------------------------------------------
    def strip_attrs(self, toks):
        out = []
        k = 0
        froms = []
        while k < len(toks):
            t = toks[k]
            if is_p(t, '#'):
                s = [j for j in range(k + 1, min(k + 6, len(toks))) if toks[j].kind not in ('ws', 'comment', 'doc')]
                j = s[0] if s else None
                if j is not None and is_p(toks[j], '!') and len(s) > 1:
                    j = s[1]
                if j is not None and is_p(toks[j], '['):
                    e = match_close(toks, j)
                    a = text_of(toks[k:e + 1])
                    self.rec('R1', a, '')
                    if '#[from]' in a.replace(' ', ''):
                        froms.append(len(out))
                    k = e + 1
                    # swallow one following newline-free whitespace
                    continue
            out.append(t)
            k += 1
        return out, froms

    # R4 / misc token-level rules -----------------------------------------
    def basic(self, toks, in_const=False):
        fmt_table = self.unit.get('format_rules', {})
        num_vars = set(self.unit.get('format_num_vars', []))
        out = []
        k = 0
        n = len(toks)

        def nxt(k):
            j = k + 1
            while j < n and toks[j].kind in ('ws', 'comment', 'doc'):
                j += 1
            return j

        def prv_out():
            j = len(out) - 1
            while j >= 0 and out[j].kind in ('ws', 'comment', 'doc'):
                j -= 1
            return out[j] if j >= 0 else None

        while k < n:
            t = toks[k]
            # R16b: `[mantra_dex_std::]farm_manager::Name` -> `FmName` (avoids the ExecuteMsg/QueryMsg name clash)
            ppr = self.unit.get('path_prefix_renames', {})
            if is_id(t) and t.text in ppr and nxt(k) < n and is_p(toks[nxt(k)], '::'):
                j = nxt(nxt(k))
                if j < n and is_id(toks[j]) and toks[j].text[:1].isupper():
                    self.rec('R16', t.text + '::' + toks[j].text, ppr[t.text] + toks[j].text)
                    out.append(T('ident', ppr[t.text] + toks[j].text, t.start))
                    k = j + 1
                    continue
            # R5: std::cmp::min(a, b) -> cmp_min(a, b)
            if is_id(t, 'std') and (text_of(toks[k:k + 12]).replace(' ', '').startswith('std::cmp::min(') or text_of(toks[k:k + 12]).replace(' ', '').startswith('std::cmp::max(')):
                j = k
                while not (is_id(toks[j], 'min') or is_id(toks[j], 'max')):
                    j += 1
                out.append(T('ident', 'cmp_' + toks[j].text, t.start))
                self.rec('R5', 'std::cmp::' + toks[j].text, 'cmp_' + toks[j].text)
                k = j + 1
                continue
            # R16: strip in-crate / mantra-dex-std module paths (everything is one flat namespace)
            if is_id(t) and t.text in MODULE_NAMES and t.text not in ppr and nxt(k) < n and is_p(toks[nxt(k)], '::'):
                p = prv_out()
                if p is None or not is_p(p, '::'):
                    j = k
                    segs = []
                    while j < n and is_id(toks[j]) and toks[j].text in MODULE_NAMES and toks[j].text not in ppr and nxt(j) < n and is_p(toks[nxt(j)], '::'):
                        segs.append(toks[j].text)
                        j = nxt(nxt(j))
                    if j < n and is_id(toks[j]):
                        self.rec('R16', '::'.join(segs) + '::', '')
                        k = j
                        continue
            # macros: format!, env!, vec! is kept
            if is_id(t) and t.text in ('format', 'env', 'panic', 'unreachable', 'println') and nxt(k) < n and is_p(toks[nxt(k)], '!'):
                b = nxt(nxt(k))
                if b < n and toks[b].kind == 'punct' and toks[b].text in OPEN:
                    e = match_close(toks, b)
                    whole = text_of(toks[k:e + 1])
                    if t.text == 'env':
                        rep = '"0.0.0"'
                        self.rec('R12', whole, rep)
                    elif t.text == 'format':
                        rep = self.format_rule(toks[b + 1:e], fmt_table, num_vars)
                        self.rec('R4-format', whole, rep)
                    else:
                        rep = whole
                    out.append(T('raw', rep, t.start))
                    k = e + 1
                    continue
            # R4-join: `let x[: String] = <iterator chain>.join(sep);` only renders text for attributes -> opaque Str
            if is_id(t, 'let'):
                j = k + 1
                depth = 0
                eq = None
                while j < n:
                    x = toks[j]
                    if x.kind == 'punct' and x.text in OPEN:
                        j = match_close(toks, j)
                    elif is_p(x, '=') and eq is None:
                        eq = j
                    elif is_p(x, ';'):
                        break
                    j += 1
                if eq is not None and j < n:
                    sgn = [q for q in range(eq + 1, j) if toks[q].kind not in ('ws', 'comment', 'doc')]
                    if len(sgn) >= 4 and is_p(toks[sgn[-1]], ')'):
                        # find the '(' matching the last ')'
                        op = None
                        for q in sgn:
                            if is_p(toks[q], '(') and match_close(toks, q) == sgn[-1]:
                                op = q
                        if op is not None:
                            pi = sgn.index(op)
                            if pi >= 2 and is_id(toks[sgn[pi - 1]], 'join') and is_p(toks[sgn[pi - 2]], '.'):
                                self.rec('R4-join', text_of(toks[eq + 1:j]), 'Str::opaque()')
                                out.extend(self.basic(toks[k:eq], in_const))
                                out.append(T('raw', '= Str::opaque()', toks[eq].start))
                                k = j
                                continue
            # R7: ensure!(cond, err) -> its cosmwasm-std expansion (so Verus syntax spliced into `cond` is parsed)
            if is_id(t, 'ensure') and nxt(k) < n and is_p(toks[nxt(k)], '!'):
                b = nxt(nxt(k))
                if b < n and is_p(toks[b], '('):
                    e = match_close(toks, b)
                    inner = toks[b + 1:e]
                    depth = 0
                    cut = None
                    for q, x in enumerate(inner):
                        if x.kind == 'punct' and x.text in OPEN:
                            depth += 1
                        elif x.kind == 'punct' and x.text in ')]}':
                            depth -= 1
                        elif is_p(x, ',') and depth == 0:
                            cut = q
                            break
                    if cut is not None:
                        cond = self.basic(inner[:cut], in_const)
                        err = self.basic([x for x in inner[cut + 1:]], in_const)
                        # drop a trailing comma of the error expression
                        while err and (err[-1].kind == 'ws' or is_p(err[-1], ',')):
                            err.pop()
                        self.rec('R7', 'ensure!(..)', 'if !(..) { return Err(From::from(..)); }')
                        out.append(T('raw', 'if !(', t.start))
                        out.extend(cond)
                        out.append(T('raw', ') { return Err(core::convert::From::from(', t.start))
                        out.extend(err)
                        out.append(T('raw', ')); }', t.start))
                        k = e + 1
                        # swallow the `;` that follows the macro call
                        j2 = k
                        while j2 < n and toks[j2].kind == 'ws':
                            j2 += 1
                        if j2 < n and is_p(toks[j2], ';'):
                            k = j2 + 1
                        continue
            if t.kind == 'str' and not in_const:
                rep = 'Str::lit(%s)' % t.text
                out.append(T('raw', rep, t.start))
                k += 1
                continue
            if is_id(t, 'String'):
                out.append(T('ident', 'Str', t.start))
                k += 1
                continue
            if is_id(t, 'str') and not in_const:
                p = prv_out()
                if p is not None and (is_p(p, '&') or p.kind == 'lifetime' or is_id(p, 'mut')):
                    out.append(T('ident', 'Str', t.start))
                    k += 1
                    continue
            # impl Into<Uint256> / impl Into<u128>  ->  impl ToNat   (R6)
            if is_id(t, 'Into') and prv_out() is not None and is_id(prv_out(), 'impl') and nxt(k) < n and is_p(toks[nxt(k)], '<'):
                e = nxt(nxt(nxt(k)))
                if e < n and is_p(toks[e], '>') and toks[nxt(nxt(k))].text in ('Uint256', 'u128', 'Uint128', 'Uint512'):
                    self.rec('R6', 'impl Into<%s>' % toks[nxt(nxt(k))].text, 'impl ToNat')
                    out.append(T('ident', 'ToNat', t.start))
                    k = e + 1
                    continue
            # dyn Storage -> Storage (R13)
            if is_id(t, 'dyn') and nxt(k) < n and is_id(toks[nxt(k)], 'Storage'):
                self.rec('R13', 'dyn Storage', 'Storage')
                k = nxt(k)
                continue
            # .to_string() -> .to_str_()  (R4)
            if is_id(t, 'to_string') and prv_out() is not None and is_p(prv_out(), '.'):
                out.append(T('ident', 'to_str_', t.start))
                k += 1
                continue
            # R11c: native `L + <n>u64` / `L - <n>u64` (panics on overflow under overflow-checks = true) -> partial shim op
            if t.kind == 'punct' and t.text in ('+', '-') and nxt(k) < n and toks[nxt(k)].kind == 'num' and toks[nxt(k)].text.endswith('u64'):
                j = len(out) - 1
                while j >= 0 and out[j].kind in ('ws', 'comment', 'doc'):
                    j -= 1
                end_l = j
                depth = 0
                while j >= 0:
                    x = out[j]
                    if x.kind in ('ws', 'comment', 'doc'):
                        if depth == 0:
                            # whitespace inside a chain only directly around '.'
                            pj = j - 1
                            while pj >= 0 and out[pj].kind in ('ws', 'comment', 'doc'):
                                pj -= 1
                            nj = j + 1
                            while nj <= end_l and out[nj].kind in ('ws', 'comment', 'doc'):
                                nj += 1
                            if not ((pj >= 0 and is_p(out[pj], '.')) or (nj <= end_l and is_p(out[nj], '.'))):
                                break
                        j -= 1
                        continue
                    if x.kind == 'punct' and x.text in ')]':
                        depth += 1
                    elif x.kind == 'punct' and x.text in '([':
                        if depth == 0:
                            break
                        depth -= 1
                    elif depth == 0 and not (x.kind in ('ident', 'num', 'raw') or (x.kind == 'punct' and x.text in ('.', '::', '?'))):
                        break
                    j -= 1
                start = j + 1
                while start <= end_l and out[start].kind in ('ws', 'comment', 'doc'):
                    start += 1
                # a leading deref `*`
                pj = start - 1
                while pj >= 0 and out[pj].kind in ('ws', 'comment', 'doc'):
                    pj -= 1
                if pj >= 0 and is_p(out[pj], '*'):
                    ppj = pj - 1
                    while ppj >= 0 and out[ppj].kind in ('ws', 'comment', 'doc'):
                        ppj -= 1
                    if ppj < 0 or not (out[ppj].kind in ('ident', 'num') or is_p(out[ppj], ')')):
                        start = pj
                if start <= end_l:
                    left = text_of(out[start:end_l + 1])
                    fn = 'add_u64_' if t.text == '+' else 'sub_u64_'
                    rep = '%s(%s, %s)' % (fn, left, toks[nxt(k)].text)
                    self.rec('R11c', '%s %s %s' % (left, t.text, toks[nxt(k)].text), rep)
                    del out[start:]
                    out.append(T('raw', rep, t.start))
                    k = nxt(k) + 1
                    continue
            # R10b: `MAP[&KEY]` -> `*MAP.index_(&KEY)` (HashMap indexing; Vec indexing never takes a reference)
            if is_p(t, '[') and nxt(k) < n and is_p(toks[nxt(k)], '&') and prv_out() is not None and is_id(prv_out()):
                e = match_close(toks, k)
                j = len(out) - 1
                while j >= 0 and out[j].kind in ('ws', 'comment', 'doc'):
                    j -= 1
                name = out[j].text
                inner = text_of(self.basic(toks[k + 1:e], in_const))
                self.rec('R10', '%s[%s]' % (name, inner), '*%s.index_(%s)' % (name, inner))
                del out[j:]
                out.append(T('raw', '(*%s.index_(%s))' % (name, inner), t.start))
                k = e + 1
                continue
            # R4-join (expression position): `<postfix chain>.join(sep)` -> Str::opaque()
            if is_id(t, 'join') and prv_out() is not None and is_p(prv_out(), '.') and nxt(k) < n and is_p(toks[nxt(k)], '('):
                e = match_close(toks, nxt(k))
                # walk back over the receiver chain in `out`
                j = len(out) - 1
                while j >= 0 and out[j].kind in ('ws', 'comment', 'doc'):
                    j -= 1
                # out[j] is the '.' before join
                j -= 1
                depth = 0
                while j >= 0:
                    x = out[j]
                    if x.kind in ('ws', 'comment', 'doc'):
                        j -= 1
                        continue
                    if x.kind == 'punct' and x.text in ')]>':
                        depth += 1
                    elif x.kind == 'punct' and x.text in '([<':
                        if depth == 0:
                            break
                        depth -= 1
                    elif x.kind == 'punct' and x.text == '>>':
                        depth += 2
                    elif depth == 0 and not (x.kind in ('ident', 'raw', 'num', 'str', 'lifetime') or (x.kind == 'punct' and x.text in ('.', '::', '|', '&', '?'))):
                        break
                    j -= 1
                start = j + 1
                while start < len(out) and out[start].kind in ('ws', 'comment', 'doc'):
                    start += 1
                self.rec('R4-join', text_of(out[start:]) + 'join(..)', 'Str::opaque()')
                del out[start:]
                out.append(T('raw', 'Str::opaque()', t.start))
                k = e + 1
                continue
            # `.update::<_, E>(` -> `.update(` (the shim's update has the error type fixed)
            if is_id(t, 'update') and prv_out() is not None and is_p(prv_out(), '.') and nxt(k) < n and is_p(toks[nxt(k)], '::'):
                g2 = nxt(nxt(k))
                if g2 < n and is_p(toks[g2], '<'):
                    from rustlex import match_angle
                    g3 = match_angle(toks, g2)
                    self.rec('R6', '.update::' + text_of(toks[g2:g3 + 1]), '.update')
                    out.append(t)
                    k = g3 + 1
                    continue
            if is_id(t, 'unwrap_err') and prv_out() is not None and is_p(prv_out(), '.'):
                out.append(T('ident', 'unwrap_err_', t.start))
                self.rec('R11', '.unwrap_err()', '.unwrap_err_()')
                k += 1
                continue
            if is_id(t, 'unwrap_or_default') and prv_out() is not None and is_p(prv_out(), '.'):
                out.append(T('ident', 'unwrap_or_default_', t.start))
                self.rec('R11', '.unwrap_or_default()', '.unwrap_or_default_()')
                k += 1
                continue
            if is_id(t, 'unwrap') and prv_out() is not None and is_p(prv_out(), '.') and nxt(k) < n and is_p(toks[nxt(k)], '('):
                out.append(T('ident', 'unwrap_', t.start))
                self.rec('R11', '.unwrap()', '.unwrap_()')
                k += 1
                continue
            if is_id(t, 'range') and prv_out() is not None and is_p(prv_out(), '.') and nxt(k) < n and is_p(toks[nxt(k)], '('):
                # R17: `.range(ARGS).next().transpose()` -> `.range_first_(ARGS)` (first entry of a prefix range)
                pc_ = match_close(toks, nxt(k))
                tail = []
                q_ = pc_
                for _ in range(8):
                    q_ = nxt(q_)
                    if q_ >= n:
                        break
                    tail.append(toks[q_])
                tt = ''.join(x.text for x in tail)
                if tt.startswith('.take('):
                    # R18: `.range(storage, START, None, Order::Ascending).take(LIMIT).map(|item| { let (_, x) = item?; Ok(x) }).collect[::<..>]()`
                    #      -> `.range_take_(storage, START, LIMIT)` (first LIMIT values of the prefix after START, in key order)
                    a1 = nxt(pc_)            # '.'
                    a2 = nxt(a1)             # take
                    a3 = nxt(a2)             # (
                    tc = match_close(toks, a3)
                    b1 = nxt(tc); b2 = nxt(b1); b3 = nxt(b2)
                    if b3 < n and is_p(toks[b1], '.') and is_id(toks[b2], 'map') and is_p(toks[b3], '('):
                        mc = match_close(toks, b3)
                        clos = re.sub(r'\s+', '', ''.join(x.text for x in toks[b3 + 1:mc] if x.kind not in ('comment', 'doc')))
                        c1 = nxt(mc); c2 = nxt(c1)
                        args_txt = re.sub(r'\s+', '', ''.join(x.text for x in toks[nxt(k) + 1:pc_] if x.kind not in ('comment', 'doc')))
                        if (re.fullmatch(r'\|item\|\{let\(_,(\w+)\)=item\?;Ok\(\1\)\}', clos) and c2 < n and is_p(toks[c1], '.') and is_id(toks[c2], 'collect')
                                and args_txt.endswith(',None,Order::Ascending')):
                            q2 = nxt(c2)
                            if q2 < n and is_p(toks[q2], '::'):
                                from rustlex import match_angle
                                q2 = nxt(match_angle(toks, nxt(q2)))
                            if q2 < n and is_p(toks[q2], '('):
                                ce = match_close(toks, q2)
                                first_two = ''.join(x.text for x in toks[nxt(k) + 1:pc_])
                                first_two = first_two[:first_two.rindex('None')].rstrip().rstrip(',')
                                lim = ''.join(x.text for x in toks[a3 + 1:tc])
                                out.append(T('raw', 'range_take_(%s, %s)' % (first_two.strip(), lim.strip()), t.start))
                                self.rec('R18', '.range(s, start, None, Ascending).take(n).map(|item| Ok(value)).collect()', '.range_take_(s, start, n)')
                                k = ce + 1
                                continue
                # R17b: `.take(N)` with a literal N >= 1 between the range and `.next()` does not change the first element
                tail13, q13 = [], pc_
                for _ in range(13):
                    q13 = nxt(q13)
                    if q13 >= n:
                        break
                    tail13.append(toks[q13])
                tt13 = ''.join(x.text for x in tail13)
                m17b = re.match(r'\.take\(([1-9][0-9]*)(usize|u32|u64)?\)\.next\(\)\.transpose\(\)$', tt13)
                if m17b and len(tail13) == 13:
                    out.append(T('ident', 'range_first_', t.start))
                    self.rec('R17', '.range(..).take(%s).next().transpose()' % m17b.group(1), '.range_first_(..)')
                    out.extend(toks[nxt(k):pc_ + 1])
                    k = q13 + 1
                    continue
                if tt.startswith('.next().transpose()'):
                    out.append(T('ident', 'range_first_', t.start))
                    self.rec('R17', '.range(..).next().transpose()', '.range_first_(..)')
                    out.extend(toks[nxt(k):pc_ + 1])
                    k = q_ + 1
                    continue
            if is_id(t, 'FARMS') or is_id(t, 'POSITIONS'):
                # R18c: `FARMS.idx.lp_denom.prefix(X)` -> `farms_lp_prefix_(X)` (multi-index prefix of the lp_denom index)
                seq_ = []
                q4 = k
                for _ in range(6):
                    q4 = nxt(q4)
                    if q4 >= n:
                        break
                    seq_.append(toks[q4])
                tx_ = ''.join(x.text for x in seq_)
                if is_id(t, 'FARMS') and tx_ == '.idx.lp_denom.prefix':
                    out.append(T('ident', 'farms_lp_prefix_', t.start))
                    self.rec('R18', 'FARMS.idx.lp_denom.prefix(x)', 'farms_lp_prefix_(x)')
                    k = q4 + 1
                    continue
            if is_id(t, 'calc_range_start_string') and nxt(k) < n and is_p(toks[nxt(k)], '('):
                # R18b: `cw_utils::calc_range_start_string(X).map(Bound::ExclusiveRaw)` -> `range_start_(X)` (exclusive start key)
                pc2 = match_close(toks, nxt(k))
                tl = []
                q3 = pc2
                for _ in range(7):
                    q3 = nxt(q3)
                    if q3 >= n:
                        break
                    tl.append(toks[q3])
                if ''.join(x.text for x in tl) == '.map(Bound::ExclusiveRaw)':
                    # drop a preceding `cw_utils ::`
                    while out and (out[-1].kind in ('ws',) or is_p(out[-1], '::') or is_id(out[-1], 'cw_utils')):
                        if is_id(out[-1], 'cw_utils'):
                            out.pop()
                            break
                        out.pop()
                    out.append(T('ident', 'range_start_', t.start))
                    out.extend(toks[nxt(k):pc2 + 1])
                    self.rec('R18', 'cw_utils::calc_range_start_string(x).map(Bound::ExclusiveRaw)', 'range_start_(x)')
                    k = q3 + 1
                    continue
            if is_id(t, 'sort_by') and prv_out() is not None and is_p(prv_out(), '.'):
                out.append(T('ident', 'sort_by_', t.start))
                self.rec('R5', '.sort_by(', '.sort_by_(')
                k += 1
                continue
            if is_id(t, 'to_owned') and prv_out() is not None and is_p(prv_out(), '.'):
                out.append(T('ident', 'clone', t.start))
                self.rec('R5', '.to_owned()', '.clone()')
                k += 1
                continue
            # R5: `.iter().map(F).collect[::<..>]()` -> `.iter_map(F)` / `.iter_try_map(F)`;
            #     `.into_iter().filter(P).collect()` -> `.into_iter_filter(P)`
            if is_id(t) and t.text in ('iter', 'into_iter') and prv_out() is not None and is_p(prv_out(), '.'):
                a = nxt(k)
                bq = nxt(a) if a < n else n
                c = nxt(bq) if bq < n else n
                d = nxt(c) if c < n else n
                e0 = nxt(d) if d < n else n
                if (a < n and is_p(toks[a], '(') and bq < n and is_p(toks[bq], ')') and c < n and is_p(toks[c], '.') and d < n
                        and is_id(toks[d]) and toks[d].text in ('map', 'filter', 'partition') and e0 < n and is_p(toks[e0], '(')):
                    e1 = match_close(toks, e0)
                    f0 = nxt(e1)
                    f1 = nxt(f0) if f0 < n else n
                    if t.text == 'into_iter' and toks[d].text == 'partition':
                        self.rec('R5', '.into_iter().partition(..)', '.into_iter_partition(..)')
                        out.append(T('ident', 'into_iter_partition', t.start))
                        out.append(T('punct', '(', toks[e0].start))
                        out.extend(self.basic(toks[e0 + 1:e1], in_const))
                        out.append(T('punct', ')', toks[e1].start))
                        k = e1 + 1
                        continue
                    if f0 < n and is_p(toks[f0], '.') and f1 < n and is_id(toks[f1], 'collect'):
                        g = nxt(f1)
                        turbo = ''
                        if g < n and is_p(toks[g], '::'):
                            g2 = nxt(g)
                            from rustlex import match_angle
                            g3 = match_angle(toks, g2)
                            turbo = text_of(toks[g2:g3 + 1])
                            g = nxt(g3)
                        if g < n and is_p(toks[g], '(') and nxt(g) < n and is_p(toks[nxt(g)], ')'):
                            tail_after = nxt(g) + 1
                            dedup = False
                            if t.text == 'iter' and toks[d].text == 'map' and 'HashSet' in turbo:
                                # `.collect::<HashSet<_>>()` de-duplicates; the usual continuation `.into_iter().collect()` turns the
                                # set back into a Vec (arbitrary order): the pair becomes `.dedup_hashset_()`
                                seq = []
                                qq = nxt(nxt(g))
                                for _ in range(8):
                                    if qq < n:
                                        seq.append(qq)
                                        qq = nxt(qq)
                                txt8 = ''.join(toks[x].text for x in seq)
                                if txt8.startswith('.into_iter().collect()'):
                                    tail_after = seq[7] + 1
                                    dedup = True
                                else:
                                    raise ExtractError('collect::<HashSet<_>>() without `.into_iter().collect()` is not supported by the rewrite rules')
                            if t.text == 'iter' and toks[d].text == 'map':
                                nm = 'iter_try_map' if 'Result' in turbo else 'iter_map'
                            elif t.text == 'into_iter' and toks[d].text == 'filter':
                                nm = 'into_iter_filter'
                            else:
                                nm = None
                            if nm:
                                self.rec('R5', '.%s().%s(..).collect%s()' % (t.text, toks[d].text, '::' + turbo if turbo else ''), '.%s(..)' % nm)
                                out.append(T('ident', nm, t.start))
                                out.append(T('punct', '(', toks[e0].start))
                                out.extend(self.basic(toks[e0 + 1:e1], in_const))
                                out.append(T('punct', ')', toks[e1].start))
                                if dedup:
                                    out.append(T('raw', '.dedup_hashset_()', toks[e1].start))
                                    self.rec('R5', '.collect::<HashSet<_>>().into_iter().collect()', '.dedup_hashset_()')
                                k = tail_after
                                continue
            # R5: `.iter().filter(P).count()` -> `.iter_count(P)`  (a `|&x|` parameter pattern becomes `|x|`: the helper passes `&T`)
            if is_id(t, 'iter') and prv_out() is not None and is_p(prv_out(), '.'):
                a = nxt(k)
                bq = nxt(a) if a < n else n
                c = nxt(bq) if bq < n else n
                d = nxt(c) if c < n else n
                e0 = nxt(d) if d < n else n
                if (a < n and is_p(toks[a], '(') and bq < n and is_p(toks[bq], ')') and c < n and is_p(toks[c], '.') and d < n
                        and is_id(toks[d], 'filter') and e0 < n and is_p(toks[e0], '(')):
                    e1 = match_close(toks, e0)
                    f0 = nxt(e1)
                    f1 = nxt(f0) if f0 < n else n
                    g = nxt(f1) if f1 < n else n
                    if f0 < n and is_p(toks[f0], '.') and f1 < n and is_id(toks[f1], 'count') and g < n and is_p(toks[g], '(') and nxt(g) < n and is_p(toks[nxt(g)], ')'):
                        inner = toks[e0 + 1:e1]
                        si = [q for q, x in enumerate(inner) if x.kind not in ('ws', 'comment', 'doc')]
                        if len(si) >= 4 and is_p(inner[si[0]], '|') and is_p(inner[si[1]], '&') and is_id(inner[si[2]]) and is_p(inner[si[3]], '|'):
                            inner = inner[:si[1]] + inner[si[1] + 1:]
                        self.rec('R5', '.iter().filter(..).count()', '.iter_count(..)')
                        out.append(T('ident', 'iter_count', t.start))
                        out.append(T('punct', '(', toks[e0].start))
                        out.extend(self.basic(inner, in_const))
                        out.append(T('punct', ')', toks[e1].start))
                        k = nxt(g) + 1
                        continue
            # R5: `.iter().position(` -> `.iter_position(` etc. (verified helpers in shim/iter.rs)
            if is_id(t, 'iter') and prv_out() is not None and is_p(prv_out(), '.'):
                a = nxt(k)
                if a < n and is_p(toks[a], '('):
                    bq = nxt(a)
                    if bq < n and is_p(toks[bq], ')'):
                        c = nxt(bq)
                        d = nxt(c) if c < n else n
                        if c < n and is_p(toks[c], '.') and d < n and is_id(toks[d]) and toks[d].text in ITER_ADAPTERS:
                            out.append(T('ident', 'iter_' + toks[d].text, t.start))
                            self.rec('R5', '.iter().%s(' % toks[d].text, '.iter_%s(' % toks[d].text)
                            k = d + 1
                            continue
            # R5: `.chars().all(` -> `.chars_all(` (shim/pm_chars.rs)
            if is_id(t, 'chars') and prv_out() is not None and is_p(prv_out(), '.'):
                a = nxt(k)
                if a < n and is_p(toks[a], '('):
                    bq = nxt(a)
                    if bq < n and is_p(toks[bq], ')'):
                        c = nxt(bq)
                        d = nxt(c) if c < n else n
                        if c < n and is_p(toks[c], '.') and d < n and is_id(toks[d], 'all'):
                            out.append(T('ident', 'chars_all', t.start))
                            self.rec('R5', '.chars().all(', '.chars_all(')
                            k = d + 1
                            continue
            # .add_attributes(ARGS) / .add_attribute(ARGS): argument dropped (R15)
            if is_id(t) and t.text in ('add_attributes', 'add_attribute') and prv_out() is not None and is_p(prv_out(), '.'):
                b = nxt(k)
                if b < n and is_p(toks[b], '('):
                    e = match_close(toks, b)
                    self.rec('R15', '.' + text_of(toks[k:e + 1]), '.add_attributes_()')
                    out.append(T('raw', 'add_attributes_()', t.start))
                    k = e + 1
                    continue
            # .map_err(Into::into)  (R6)
            if is_id(t, 'map_err'):
                b = nxt(k)
                if b < n and is_p(toks[b], '('):
                    e = match_close(toks, b)
                    inner = text_of(toks[b + 1:e]).replace(' ', '').replace('\n', '')
                    if inner == 'Into::into':
                        rep = 'map_err(|e| ContractError::from(e))'
                        self.rec('R6', text_of(toks[k:e + 1]), rep)
                        out.append(T('raw', rep, t.start))
                        k = e + 1
                        continue
            # |_| -> |_e|   (R3)
            if is_p(t, '|') and nxt(k) < n and is_id(toks[nxt(k)], '_') and nxt(nxt(k)) < n and is_p(toks[nxt(nxt(k))], '|'):
                p = prv_out()
                if p is not None and p.kind == 'punct' and p.text in '(,=':
                    out.append(T('raw', '|_e|', t.start))
                    self.rec('R3', '|_|', '|_e|')
                    k = nxt(nxt(k)) + 1
                    continue
            out.append(t)
            k += 1
        return out

    def format_rule(self, inner, table, num_vars):
        s = [t for t in inner if t.kind not in ('ws', 'comment', 'doc')]
        if not s or s[0].kind != 'str':
            return 'Str::opaque()'
        lit = s[0].text
        key = lit[1:-1]
        if key not in table:
            return 'Str::opaque()'
        # structural: split into literal text and {name} / {} placeholders
        args = []
        cur = []
        depth = 0
        for t in s[1:]:
            if is_p(t, ',') and depth == 0:
                if cur:
                    args.append(cur)
                cur = []
                continue
            if t.kind == 'punct' and t.text in OPEN:
                depth += 1
            if t.kind == 'punct' and t.text in ')]}':
                depth -= 1
            cur.append(t)
        if cur:
            args.append(cur)
        args = [''.join(x.text for x in a) for a in args]
        parts = re.split(r'(\{[A-Za-z_0-9]*\})', key)
        pieces = []
        ai = 0
        for p in parts:
            if p == '':
                continue
            if p.startswith('{') and p.endswith('}'):
                nm = p[1:-1]
                if nm == '':
                    nm = args[ai]
                    ai += 1
                if nm.startswith('"'):
                    pieces.append('Str::lit(%s)' % nm)
                elif nm.isupper() or re.match(r'^[A-Z_0-9]+$', nm):
                    pieces.append('Str::lit(%s)' % nm)
                elif nm in num_vars:
                    pieces.append('Str::from_u64(%s)' % nm)
                else:
                    pieces.append('Str::of(&%s)' % nm)
            else:
                pieces.append('Str::lit("%s")' % p)
        e = pieces[0]
        for p in pieces[1:]:
            e = 'Str::concat(&%s, &%s)' % (e, p)
        return e


# ----------------------------------------------------------------------------- spec files
class FnSpec:
    def __init__(self, name):
        self.name = name
        self.ret = None          # name for the return value
        self.requires = []       # list of (label, tags, text)
        self.ensures = []
        self.loops = {}          # ordinal -> {'iter': name or None, 'invariant': [...], 'decreases': text}
        self.closures = {}       # ordinal -> {'params': str or None, 'ret': str, 'requires': [...], 'ensures': [...]}
        self.body_start = []     # lines inserted at body start (broadcast use / proof blocks)
        self.patches = []        # (before, after) literal source patches declared for this fn
        self.opts = {}
        self.files = []
        self.after_let = {}      # local name -> proof lines inserted after the statement `let NAME ...;`
        self.optional_lets = {}  # NAME -> labels still believed when the optional anchor is lost
        self.after_call = {}     # (fn name, ordinal) -> proof lines inserted after the statement containing the K-th call `NAME(`


LABEL = re.compile(r'^\s*@([A-Za-z0-9_.\-]+)\s*(\[([A-Z0-9, ]*)\])?\s*$')


def parse_spec(path, into=None):
    """Spec file grammar (line oriented):
    ## fn NAME            start of a function section
    ret NAME              name of the return value (default: ret)
    requires | ensures    clause lists; each clause is preceded by `@label [C01,C02]`
    loop K [iter=NAME]    followed by `invariant` / `decreases` lists
    closure K             followed by `params`, `ret`, `requires`, `ensures`
    body                  raw lines inserted at the start of the body
    """
    specs = into if into is not None else {}
    if not os.path.exists(path):
        raise ExtractError('spec file missing: ' + path)
    n_label_lines = 0
    n_label_clauses = [0]
    cur = None
    mode = None
    target = None
    clause = None

    def flush():
        nonlocal clause
        if clause is not None and target is not None:
            txt = '\n'.join(clause[2]).strip()
            if txt:
                target.append((clause[0], clause[1], txt))
                if clause[0]:
                    n_label_clauses[0] += 1
        clause = None

    for raw in open(path).read().split('\n'):
        line = raw.rstrip()
        st = line.strip()
        if st.startswith('## fn '):
            flush()
            nm = st[6:].strip()
            cur = specs.get(nm) or FnSpec(nm)
            specs[cur.name] = cur
            cur.files.append(os.path.basename(path))
            mode, target = None, None
            continue
        if cur is None or st.startswith('#!'):
            continue
        m = LABEL.match(line)
        if m and mode != 'body':
            n_label_lines += 1
        if st in ('requires', 'ensures', 'invariant') and mode != 'body':
            flush()
            if mode and mode[0] == 'loop' and st == 'invariant':
                target = cur.loops[mode[1]].setdefault(st, [])
            elif mode and mode[0] == 'closure':
                target = cur.closures[mode[1]].setdefault(st, [])
            else:
                if st == 'invariant':
                    raise ExtractError('spec %s: `invariant` outside a loop section (fn %s)' % (path, cur.name))
                mode = None
                target = getattr(cur, st)
            continue
        if st.startswith('loop ') and mode != 'body':
            flush()
            parts = st.split()
            k = int(parts[1])
            cur.loops[k] = {'iter': None}
            for p in parts[2:]:
                if p.startswith('iter='):
                    cur.loops[k]['iter'] = p[5:]
                if p == 'clone_elems':
                    cur.loops[k]['clone_elems'] = True
                if p == 'indexed':
                    cur.loops[k]['indexed'] = True
                if p == 'map_entries':
                    cur.loops[k]['map_entries'] = True
            mode, target = ('loop', k), None
            continue
        if st.startswith('closure ') and mode != 'body':
            flush()
            k = int(st.split()[1])
            cur.closures[k] = {}
            mode, target = ('closure', k), None
            continue
        if st.startswith('decreases ') and mode and mode[0] == 'loop':
            flush()
            cur.loops[mode[1]]['decreases'] = st[len('decreases '):]
            target = None
            continue
        if st.startswith('%params ') and mode and mode[0] == 'closure':
            cur.closures[mode[1]]['params'] = st[len('%params '):]
            continue
        if st.startswith('%ret ') and mode != 'body':
            if mode and mode[0] == 'closure':
                cur.closures[mode[1]]['ret'] = st[5:].strip()
            else:
                cur.ret = st[5:].strip()
            continue
        if st.startswith('%opt ') and mode != 'body':
            k, _, v = st[5:].partition('=')
            cur.opts[k.strip()] = v.strip()
            continue
        if st == 'closure_body' and mode and mode[0] == 'closure':
            flush()
            cur.closures[mode[1]].setdefault('body', [])
            mode, target = ('closurelines', mode[1]), None
            continue
        if mode and mode[0] == 'closurelines':
            if st == 'end':
                mode = ('closure', mode[1])
            else:
                cur.closures[mode[1]]['body'].append(line)
            continue
        if st in ('loop_begin', 'loop_end', 'loop_before', 'loop_after') and mode and mode[0] in ('loop', 'looplines'):
            flush()
            k_ = mode[1]
            cur.loops[k_].setdefault(st, [])
            mode, target = ('looplines', k_, st), None
            continue
        if mode and mode[0] == 'looplines':
            if st == 'end':
                mode = ('loop', mode[1])
            else:
                cur.loops[mode[1]][mode[2]].append(line)
            continue
        if st.startswith('after_call ') and mode != 'body':
            flush()
            ws_ = st.split()
            key_ = (ws_[1], int(ws_[2]) if len(ws_) > 2 else 0)
            cur.after_call.setdefault(key_, [])
            mode, target = ('aftercall', key_), None
            continue
        if mode and mode[0] == 'aftercall':
            if st == 'end':
                mode = None
            else:
                cur.after_call[mode[1]].append(line)
            continue
        if (st.startswith('after_let ') or st.startswith('after_let? ')) and mode != 'body':
            # `after_let? NAME keeps=LABEL[,LABEL]`: optional anchor. When the local is gone the hint is dropped and the
            # function is verified in degraded mode: only a failure of one of the `keeps` obligations (whose proof does not
            # use the hint) is believed; any other failure in that function is undecided (exit 2).
            flush()
            ws_ = st.split()
            nm_ = ws_[1]
            cur.after_let.setdefault(nm_, [])
            if ws_[0] == 'after_let?':
                keeps_ = []
                for w_ in ws_[2:]:
                    if w_.startswith('keeps='):
                        keeps_ = [x for x in w_[6:].split(',') if x]
                cur.optional_lets[nm_] = keeps_
            mode, target = ('afterlet', nm_), None
            continue
        if mode and mode[0] == 'afterlet':
            if st == 'end':
                mode = None
            else:
                cur.after_let[mode[1]].append(line)
            continue
        if st == 'body':
            flush()
            mode, target = 'body', None
            continue
        if st == 'end':
            flush()
            mode, target = None, None
            continue
        if mode == 'body':
            cur.body_start.append(line)
            continue
        if m and target is not None:
            flush()
            tags = [x.strip() for x in (m.group(3) or '').split(',') if x.strip()]
            clause = (m.group(1), tags, [])
            continue
        if target is not None and st and not st.startswith('//'):
            if clause is None:
                clause = (None, [], [])
            clause[2].append(line)
    flush()
    if n_label_lines != n_label_clauses[0]:
        raise ExtractError('spec %s: %d `@label` lines but %d labelled clauses were parsed (a clause was dropped)' % (path, n_label_lines, n_label_clauses[0]))
    return specs
