"""Storage-namespace obligations (rule R19).

The ghost `Storage` structs of the shims (R13) model every `Item` / `Map` / `IndexedMap` / index of a contract as a
separate field: writes to one never touch another, and an index is maintained under its own namespace and reads its
primary records from the map it belongs to. That is true of cw-storage-plus exactly when the namespace string literals
in the contract's `state.rs` do not collide. This generator turns that side condition into proof obligations over the
literals of the current working tree, so the assumption is discharged by Verus on every run instead of being trusted.

Extraction (token by token, nothing retyped): every `Item::new(L)`, `Map::new(L)`, `IndexedMap::new(L, X { f: .. })`,
`MultiIndex::new(closure, PK, IDX)`, `UniqueIndex::new(closure, IDX)` in the file, where L/PK/IDX are the string
literals that are direct arguments of the call; the fields of each `struct ..Indexes` and the `&self.f` entries of its
`get_indexes`. Reserved keys of the libraries the contract also writes through (`cw_ownable` ownership item, `cw2`
contract info) are read from the pinned dependency sources the same way.

cw-storage-plus key layout (2.0.0): an `Item` lives at the raw bytes of its key; every map-like namespace N (Map, the
primary records of an IndexedMap, each index) prefixes its keys with the 2-byte big-endian length of N followed by N.
So: two Items collide iff their keys are equal; two map-like namespaces collide iff they are equal; an Item can only
collide with a map-like key if its first byte is the high length byte (0 for namespaces shorter than 256 bytes).
Anything outside this shape (non-literal namespace, non-ASCII literal, namespace of 256+ bytes, unexpected argument
count) raises ExtractError -> undecided (exit 2), never a pass and never an alarm.
"""
import os
import re

from rustlex import lex, sig, match_close
from extract import ExtractError, load, resolve_src, line_of

CTORS = {'Item': 1, 'Map': 1, 'IndexedMap': 1, 'MultiIndex': 2, 'UniqueIndex': 1}


def _lit(tok, path):
    t = tok.text
    if not (t.startswith('"') and t.endswith('"')) or '\\' in t:
        raise ExtractError('storage namespace is not a plain string literal in %s: %r' % (path, t))
    s = t[1:-1]
    if not s or any(ord(c) < 0x20 or ord(c) > 0x7e for c in s) or len(s) >= 256:
        raise ExtractError('storage namespace outside the modelled shape (ASCII, 1..255 bytes) in %s: %r' % (path, t))
    return s


def scan(path):
    """-> (entries, index_structs, registered): entries = [{ctor, lits, line, const, field}]"""
    text, toks = load(path)
    s = sig(toks)
    entries = []
    # const ranges: `const NAME : ... = ... ;` at any depth 0
    consts = []
    for q in range(len(s) - 2):
        t = toks[s[q]]
        if t.kind == 'ident' and t.text == 'const' and toks[s[q + 1]].kind == 'ident' and toks[s[q + 1]].text != 'fn':
            # find terminating ';' at depth 0
            depth, r = 0, q
            while r < len(s):
                x = toks[s[r]]
                if x.kind == 'punct' and x.text in '([{':
                    depth += 1
                elif x.kind == 'punct' and x.text in ')]}':
                    depth -= 1
                elif x.kind == 'punct' and x.text == ';' and depth == 0:
                    break
                r += 1
            consts.append((s[q], s[min(r, len(s) - 1)], toks[s[q + 1]].text))
    for q in range(len(s) - 4):
        a, b, c, d, e = (toks[s[q + k]] for k in range(5))
        if a.kind == 'ident' and a.text in CTORS and b.kind == 'punct' and b.text == '::' and c.kind == 'ident' and c.text == 'new' \
                and d.kind == 'punct' and d.text == '(':
            close = match_close(toks, s[q + 3])
            # direct-child string literals of the call
            depth, lits = 0, []
            pipes = 0
            for k in range(s[q + 3] + 1, close):
                x = toks[k]
                if x.kind == 'punct' and x.text in '([{':
                    depth += 1
                elif x.kind == 'punct' and x.text in ')]}':
                    depth -= 1
                elif x.kind == 'str' and depth == 0:
                    lits.append(_lit(x, path))
            if len(lits) != CTORS[a.text]:
                raise ExtractError('%s::new in %s line %d: expected %d literal namespace argument(s), found %d'
                                   % (a.text, path, line_of(text, a.start), CTORS[a.text], len(lits)))
            cname = None
            for (cs, ce, nm) in consts:
                if cs <= s[q] <= ce:
                    cname = nm
            field = None
            if q >= 2 and toks[s[q - 1]].kind == 'punct' and toks[s[q - 1]].text == ':' and toks[s[q - 2]].kind == 'ident':
                field = toks[s[q - 2]].text
            entries.append({'ctor': a.text, 'lits': lits, 'line': line_of(text, a.start), 'const': cname, 'field': field})
    # index structs and their registration
    structs, registered = {}, {}
    for m in re.finditer(r'pub\s+struct\s+(\w+)\s*(<[^>]*>)?\s*\{([^}]*)\}', text):
        body = m.group(3)
        if 'Index<' in body:
            structs[m.group(1)] = re.findall(r'pub\s+(\w+)\s*:', body)
    for m in re.finditer(r'impl\s+IndexList<[^>]*>\s+for\s+(\w+)', text):
        tail = text[m.end():]
        v = re.search(r'vec!\s*\[([^\]]*)\]', tail)
        if not v:
            raise ExtractError('get_indexes of %s in %s has no vec![..] of indexes' % (m.group(1), path))
        registered[m.group(1)] = re.findall(r'&\s*self\s*\.\s*(\w+)', v.group(1))
    return entries, structs, registered


def reserved_keys():
    """keys of the library items every contract also writes: cw-ownable's ownership item and cw2's contract info"""
    out = []
    p = resolve_src('dep:cw-ownable-2.1.0/src/lib.rs')
    m = re.search(r'pub const OWNERSHIP_KEY: &str = ("[^"\\]*");', open(p).read())
    if not m:
        raise ExtractError('OWNERSHIP_KEY not found in cw-ownable-2.1.0')
    out.append(('cw_ownable::OWNERSHIP_KEY', m.group(1)[1:-1]))
    p = resolve_src('dep:cw2-2.0.0/src/lib.rs')
    m = re.search(r'pub const CONTRACT: Item<ContractVersion> = Item::new\(("[^"\\]*")\);', open(p).read())
    if not m:
        raise ExtractError('CONTRACT item not found in cw2-2.0.0')
    out.append(('cw2::CONTRACT', m.group(1)[1:-1]))
    return out


def _neq(a, b):
    """ensures clause + proof hint for two distinct literals; equal literals give a clause that cannot be proved"""
    cl = '"%s"@ != "%s"@' % (a, b)
    hint = ''
    if a != b and len(a) == len(b):
        k = [i for i in range(len(a)) if a[i] != b[i]][0]
        hint = '    assert("%s"@[%d] != "%s"@[%d]);\n' % (a, k, b, k)
    elif a != b:
        hint = '    assert("%s"@.len() != "%s"@.len());\n' % (a, b)
    return cl, hint


def generate(entry):
    """entry: {prefix, src, tags: {keys: [...], index: [...]}} -> Verus source text of the generated lemmas"""
    path = resolve_src(entry['src'])
    entries, structs, registered = scan(path)
    pre = entry['prefix']
    items = [(e['const'] or '?', e['lits'][0], e['line']) for e in entries if e['ctor'] == 'Item']
    items += [(n, k, 0) for (n, k) in reserved_keys()]
    maps = []
    for e in entries:
        if e['ctor'] in ('Map', 'IndexedMap'):
            maps.append(('%s' % (e['const'] or '?'), e['lits'][0], e['line']))
        elif e['ctor'] == 'MultiIndex':
            maps.append(('%s.idx.%s' % (e['const'] or '?', e['field'] or '?'), e['lits'][1], e['line']))
        elif e['ctor'] == 'UniqueIndex':
            maps.append(('%s.idx.%s' % (e['const'] or '?', e['field'] or '?'), e['lits'][0], e['line']))
    all_lits = sorted(set([k for (_, k, _) in items] + [k for (_, k, _) in maps] + [l for e in entries for l in e['lits']]))
    reveal = ''.join('    reveal_strlit("%s");\n' % l for l in all_lits)
    out = ['// generated by vlib/nsgen.py (rule R19) from %s; the literals below are copied from that file' % entry['src'], 'verus! {']
    ens, hints = [], ''
    for i in range(len(items)):
        for j in range(i + 1, len(items)):
            cl, h = _neq(items[i][1], items[j][1])
            ens.append('        // Item %s vs Item %s\n        %s,' % (items[i][0], items[j][0], cl))
            hints += h
    for i in range(len(maps)):
        for j in range(i + 1, len(maps)):
            cl, h = _neq(maps[i][1], maps[j][1])
            ens.append('        // namespace of %s vs namespace of %s\n        %s,' % (maps[i][0], maps[j][0], cl))
            hints += h
    for (n, k, _) in items:
        ens.append("        // Item %s cannot alias a length-prefixed map key\n        \"%s\"@.len() > 0 && \"%s\"@[0] != '\\0'," % (n, k, k))
    out.append('// @lemma %s_storage_keys_never_collide [%s]' % (pre, ','.join(entry['tags']['keys'])))
    out.append('pub proof fn %s_storage_keys_never_collide()\n    ensures\n%s\n{\n%s%s}' % (pre, '\n'.join(ens), reveal, hints))
    # indexes are filed under the map they index, and every declared index is registered with the map
    iens, ihints = [], ''
    for e in entries:
        if e['ctor'] == 'MultiIndex':
            owner = [x for x in entries if x['ctor'] == 'IndexedMap' and x['const'] == e['const']]
            if len(owner) != 1:
                raise ExtractError('MultiIndex at %s:%d is not inside exactly one IndexedMap constant' % (path, e['line']))
            iens.append('        // %s.idx.%s reads its primary records from the map it indexes\n        "%s"@ == "%s"@,'
                        % (e['const'], e['field'], e['lits'][0], owner[0]['lits'][0]))
    for sname, fields in sorted(structs.items()):
        if sname not in registered:
            raise ExtractError('index struct %s in %s has no IndexList impl' % (sname, path))
        built = [e['field'] for e in entries if e['ctor'] in ('MultiIndex', 'UniqueIndex')]
        for f in fields:
            alts = ' || '.join('"%s"@ == "%s"@' % (f, r) for r in registered[sname]) or 'false'
            iens.append('        // index %s.%s is kept up to date (listed in get_indexes)\n        %s,' % (sname, f, alts))
            alts2 = ' || '.join('"%s"@ == "%s"@' % (f, r) for r in built) or 'false'
            iens.append('        // index %s.%s is constructed with a namespace of its own\n        %s,' % (sname, f, alts2))
        names = sorted(set(fields + registered[sname] + [b for b in built if b]))
        for a in names:
            ihints += '    reveal_strlit("%s");\n' % a
        for a in fields:
            for b in names:
                if a != b and len(a) == len(b):
                    k = [i for i in range(len(a)) if a[i] != b[i]][0]
                    ihints += '    assert("%s"@[%d] != "%s"@[%d]);\n' % (a, k, b, k)
    if iens:
        out.append('// @lemma %s_indexes_are_filed_under_and_registered_with_their_map [%s]' % (pre, ','.join(entry['tags']['index'])))
        out.append('pub proof fn %s_indexes_are_filed_under_and_registered_with_their_map()\n    ensures\n%s\n{\n%s%s}'
                   % (pre, '\n'.join(iens), reveal, ihints))
    out.append('} // verus!')
    summary = {'src': entry['src'], 'items': [(n, k) for (n, k, _) in items], 'namespaces': [(n, k) for (n, k, _) in maps],
               'index_structs': structs, 'registered': registered}
    return '\n'.join(out) + '\n', summary
