"""thorough tier: proof-stability re-runs (different Z3 seed / halved rlimit) and Kani harnesses."""
def run(pid, rel_units, built, seed):
    return [], [], {}
