"""thorough tier: the quick verdict plus proof-stability evidence.

Every unit of the property is verified again, uncached, under further Z3 random seeds. A proof found under any seed is a
proof, so these runs can only ADD information: an obligation that fails under some seed but is discharged under another is
reported as `unstable` in the evidence (a maintenance warning - such proofs turn into false alarms later), never as a
violation; an obligation that fails under every seed was already reported by the quick part."""
import concurrent.futures
import os

SEEDS = (11, 23, 47)


def run(pid, rel_units, built, seed):
    import driver
    jobs = [(name, rs, meta, sd + seed) for name, (rs, meta) in built.items() for sd in SEEDS]
    res = {}
    old = os.environ.get('VERIF_NO_CACHE')
    os.environ['VERIF_NO_CACHE'] = '1'
    try:
        with concurrent.futures.ThreadPoolExecutor(max_workers=8) as ex:
            for (name, rs, meta, sd), vr in zip(jobs, ex.map(lambda j: driver.run_verus(j[1], extra=['--smt-option', 'smt.random_seed=%d' % j[3]]), jobs)):
                fails, und, vac, st = driver.classify(name, meta, vr)
                res.setdefault(name, []).append({'seed': sd, 'failed': sorted(f['obligation'] for f in fails), 'undecided': und, 'vacuous': vac,
                                                 'wall_s': st.get('wall_s'), 'smt_ms': st.get('smt_ms')})
    finally:
        if old is None:
            os.environ.pop('VERIF_NO_CACHE', None)
        else:
            os.environ['VERIF_NO_CACHE'] = old
    unstable = {}
    for name, runs in res.items():
        allf = set(x for r in runs for x in r['failed'])
        common = set.intersection(*[set(r['failed']) for r in runs]) if runs else set()
        if allf - common or any(r['undecided'] for r in runs):
            unstable[name] = {'fails_under_some_seed_only': sorted(allf - common), 'undecided_runs': sum(1 for r in runs if r['undecided'])}
    return [], [], {'stability_runs': res, 'unstable': unstable, 'seeds': [s + seed for s in SEEDS]}
