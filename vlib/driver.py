"""check driver: extraction -> Verus -> obligation mapping -> known findings -> evidence."""
import concurrent.futures
import glob
import hashlib
import json
import os
import re
import subprocess
import sys
import time

import build
from extract import ExtractError, parse_spec

VERIF = build.VERIF
OUT = os.environ.get('VERIF_OUT') or os.path.join(VERIF, 'out')
VERUS_TIMEOUT = int(os.environ.get('VERIF_VERUS_TIMEOUT', '900'))
VERUS_ARGS = ['--multiple-errors', '50', '--output-json', '--time', '--error-format=json']

VERIF_FAIL_MSGS = ('postcondition not satisfied', 'precondition not satisfied', 'assertion failed', 'invariant not satisfied',
                   'possible arithmetic underflow/overflow', 'possible division by zero', 'decreases not satisfied',
                   'could not prove termination', 'arithmetic underflow', 'recommendation not met', 'index out of bounds',
                   'unreachable', 'failed', 'possible bit shift', 'ensures not satisfied', 'loop invariant', 'unable to prove')
UNDECIDED_MSGS = ('rlimit', 'Resource limit', 'timed out', 'timeout')


def load_units():
    units = {}
    for p in sorted(glob.glob(os.path.join(VERIF, 'units', '*.json'))):
        if p.endswith('.inc.json'):
            continue
        u = json.load(open(p))
        units[u['name']] = u
    return units


LEMMA_TAG = build.LEMMA_TAG


def unit_tags(unit):
    """property ids tagged anywhere in the unit's spec / lemma files (without building)"""
    tags = set()
    for sp in [unit['name'] + '.spec']:
        p = os.path.join(VERIF, 'contracts', sp)
        if os.path.exists(p):
            for m in re.finditer(r'^\s*@[A-Za-z0-9_.\-]+\s*\[([A-Z0-9, ]*)\]', open(p).read(), re.M):
                tags.update(x.strip() for x in m.group(1).split(',') if x.strip())
    for lf in unit.get('lemma_files', []):
        p = os.path.join(VERIF, 'lemmas', lf)
        for m in LEMMA_TAG.finditer(open(p).read()):
            tags.update(x.strip() for x in m.group(2).split(',') if x.strip())
    for ge in unit.get('generated_lemmas', []):
        for v in ge['tags'].values():
            tags.update(v)
    return tags


def verus_version():
    try:
        o = subprocess.run(['verus', '--version'], capture_output=True, text=True, timeout=60).stdout
        m = re.search(r'Version:\s*(\S+)', o)
        return m.group(1) if m else 'unknown'
    except Exception:
        return 'unknown'


def run_verus(rs_path, extra=None):
    """returns dict(status, out_json, diags, wall_s, cmd, cache)"""
    src = open(rs_path, 'rb').read()
    args = VERUS_ARGS + (extra or [])
    key = hashlib.sha256(src + ' '.join(args).encode() + verus_version().encode()).hexdigest()
    cdir = os.path.join(OUT, 'cache')
    os.makedirs(cdir, exist_ok=True)
    cpath = os.path.join(cdir, key + '.json')
    cmd = ['verus', os.path.relpath(rs_path, VERIF)] + args
    if os.path.exists(cpath) and not os.environ.get('VERIF_NO_CACHE'):
        r = json.load(open(cpath))
        r['cache'] = True
        return r
    t0 = time.time()
    try:
        p = subprocess.run(cmd, cwd=VERIF, capture_output=True, text=True, timeout=VERUS_TIMEOUT)
        rc, so, se = p.returncode, p.stdout, p.stderr
        timed_out = False
    except subprocess.TimeoutExpired as e:
        rc, so, se, timed_out = -1, (e.stdout or b'').decode() if isinstance(e.stdout, bytes) else (e.stdout or ''), '', True
    wall = time.time() - t0
    oj = None
    try:
        oj = json.loads(so[so.index('{'):])
    except Exception:
        oj = None
    diags = []
    for ln in se.split('\n'):
        ln = ln.strip()
        if ln.startswith('{'):
            try:
                diags.append(json.loads(ln))
            except Exception:
                pass
    r = {'rc': rc, 'timed_out': timed_out, 'out_json': slim(oj), 'diags': [slim_diag(d) for d in diags if d.get('level') in ('error', 'warning', 'note')],
         'wall_s': round(wall, 2), 'cmd': ' '.join(cmd), 'cache': False, 'stderr_tail': se[-2000:] if oj is None else ''}
    if not timed_out:
        tmp = cpath + '.%d.tmp' % os.getpid()
        json.dump(r, open(tmp, 'w'))
        os.replace(tmp, cpath)
    return r


def slim(oj):
    if not oj:
        return None
    t = oj.get('times-ms', {})
    fb = []
    for m in t.get('smt', {}).get('smt-run-module-times', []):
        for f in m.get('function-breakdown', []):
            fb.append({'function': f['function'], 'mode': f.get('mode:'), 'ms': f['time'], 'rlimit': f['rlimit'], 'success': f['success']})
    return {'verification-results': oj.get('verification-results'), 'total_ms': t.get('total'), 'smt_ms': t.get('smt', {}).get('total'),
            'rlimit': t.get('smt', {}).get('rlimit-run'), 'functions': fb, 'verus': oj.get('verus', {}).get('version')}


def slim_diag(d):
    return {'level': d.get('level'), 'message': d.get('message'),
            'spans': [{'line_start': s['line_start'], 'line_end': s['line_end'], 'primary': s['is_primary'], 'label': s.get('label'),
                       'text': (s['text'][0]['text'].strip()[:200] if s.get('text') else '')} for s in d.get('spans', [])],
            'rendered': (d.get('rendered') or '')[:3000]}


def classify(unit_name, meta, vr):
    """-> (failures, undecided_reasons, vacuous_twins, stats)"""
    failures = []
    undecided = []
    oj = vr['out_json']
    if vr['timed_out']:
        return [], ['verus timed out after %ds on unit %s' % (VERUS_TIMEOUT, unit_name)], [], {}
    if oj is None or oj.get('verification-results') is None:
        return [], ['verus produced no result for unit %s (front-end error?): %s' % (unit_name, first_error(vr))], [], {}
    res = oj['verification-results']
    if res.get('encountered-error') and not res.get('verified') and any(d['level'] == 'error' and not any(m in (d['message'] or '') for m in VERIF_FAIL_MSGS) and not (d['message'] or '').startswith('aborting') for d in vr['diags']):
        return [], ['verus/rustc front-end error in unit %s: %s' % (unit_name, first_error(vr))], [], {}
    if res.get('encountered-vir-error'):
        return [], ['verus front-end (VIR) error in unit %s: %s' % (unit_name, first_error(vr))], [], {}
    obls = meta['obligations']
    fn_ranges = meta['fn_ranges']
    vac = meta.get('vacuity', [])
    vac_failed = set()

    def fn_at(line):
        best = None
        for (a, b, name, src, sline, kind) in fn_ranges:
            if a <= line <= b:
                if best is None or (b - a) < (best[1] - best[0]):
                    best = (a, b, name, src, sline, kind)
        return best

    def vac_at(line):
        for v in vac:
            if v['gen_start'] <= line <= v['gen_end']:
                return v
        return None

    for d in vr['diags']:
        if d['level'] != 'error':
            continue
        msg = d['message'] or ''
        if msg.startswith('aborting due to'):
            continue
        lines = [s['line_start'] for s in d['spans']]
        # inside a vacuity twin? (expected failure of `ensures false`; other errors there duplicate the primary)
        v = None
        for ln in lines:
            v = v or vac_at(ln)
        if v is not None:
            if msg == 'postcondition not satisfied' or any(u in msg for u in UNDECIDED_MSGS):
                vac_failed.add(v['twin'])
            continue
        if any(u in msg for u in UNDECIDED_MSGS):
            undecided.append('%s: %s' % (unit_name, msg))
            continue
        if not any(m in msg for m in VERIF_FAIL_MSGS):
            undecided.append('%s: unexpected verus error: %s' % (unit_name, msg[:300]))
            continue
        hit = []
        for ob in obls:
            if ob.get('gen_start') is None:
                continue
            for s in d['spans']:
                if ob['gen_start'] <= s['line_start'] <= ob['gen_end']:
                    hit.append(ob)
                    break
        where = None
        for s in d['spans']:
            f = fn_at(s['line_start'])
            if f is not None:
                where = f
                if s['primary']:
                    break
        src_loc = None
        for s in d['spans']:
            o = meta['linemap'].get(str(s['line_start']))
            if o:
                src_loc = '%s:%d' % (os.path.relpath(o[0], '/'), o[1])
                if s['primary']:
                    break
        if src_loc is None and where is not None:
            src_loc = '%s:%s' % (where[3], where[4])
        if hit:
            for ob in hit:
                failures.append({'obligation': ob['name'], 'tags': ob['tags'], 'fn': ob['fn'], 'unit': unit_name, 'kind': ob['kind'],
                                 'message': msg, 'src': src_loc, 'rendered': d['rendered']})
        else:
            fn = where[2] if where else '?'
            prim = [s for s in d['spans'] if s['primary']] or d['spans']
            txt = re.sub(r'\s+', ' ', prim[0]['text'])[:80] if prim else ''
            failures.append({'obligation': '%s::%s::body[%s: %s]' % (unit_name, fn, msg, txt), 'tags': None, 'fn': fn, 'unit': unit_name,
                             'kind': 'body', 'message': msg, 'src': src_loc, 'rendered': d['rendered'],
                             # an untagged helper lemma: its failure invalidates every tagged lemma of the same lemma file
                             'lemma_file': (where[3] if where and where[5] in ('lemma-fn', 'lemma') else None)})
    # dedupe
    seen = set()
    uniq = []
    for f in failures:
        k = f['obligation']
        if k not in seen:
            seen.add(k)
            uniq.append(f)
    # degraded functions (an optional hint anchor was lost): only the obligations declared independent of the hint are believed
    for dg in meta.get('degraded', []):
        kept = []
        for f in uniq:
            if f['fn'] == dg['fn'] and f['unit'] == unit_name:
                label = f['obligation'].split('::')[-1]
                if label in dg['keeps']:
                    kept.append(f)
                else:
                    undecided.append('%s: hint anchor %s lost in %s; failure of %s cannot be believed' % (unit_name, dg['lost'], dg['fn'], f['obligation']))
            else:
                kept.append(f)
        uniq = kept
    vacuous = [v['twin'] for v in vac if v['twin'] not in vac_failed]
    stats = {'verified': res.get('verified'), 'errors': res.get('errors'), 'total_ms': oj.get('total_ms'), 'smt_ms': oj.get('smt_ms'),
             'rlimit': oj.get('rlimit'), 'wall_s': vr['wall_s'], 'cache': vr['cache']}
    return uniq, undecided, vacuous, stats


def first_error(vr):
    for d in vr['diags']:
        if d['level'] == 'error':
            loc = d['spans'][0]['line_start'] if d['spans'] else '?'
            return '%s (generated line %s)' % ((d['message'] or '')[:300], loc)
    return (vr.get('stderr_tail') or '')[-400:]


def trusted_scan(rs_path):
    """mechanical scan of the generated unit for unverified / assumed items"""
    hits = []
    lines = open(rs_path).read().split('\n')
    cur_shim = 'generated'
    pat = re.compile(r'external_body|assume\(|admit\(|assume_specification|#\[verifier::external|\baxiom\b|uninterp spec fn')
    for i, ln in enumerate(lines):
        m = re.match(r'// ---------------- (shim|lemmas): (\S+)', ln)
        if m:
            cur_shim = m.group(1) + '/' + m.group(2)
        if ln.startswith('// ---- '):
            cur_shim = 'extracted'
        if ln.lstrip().startswith('//'):
            continue
        if pat.search(ln):
            # name: next `fn NAME` within 3 lines
            name = None
            for j in range(i, min(i + 4, len(lines))):
                mm = re.search(r'\bfn\s+([A-Za-z0-9_]+)', lines[j])
                if mm:
                    name = mm.group(1)
                    break
            kind = pat.search(ln).group(0).strip('(#[')
            hits.append('%s: %s (%s)' % (cur_shim, name or ln.strip()[:60], kind))
    # compact: unique, keep order
    out, seen = [], set()
    for h in hits:
        if h not in seen:
            seen.add(h)
            out.append(h)
    return out


def load_known():
    p = os.path.join(VERIF, 'known_findings.json')
    if not os.path.exists(p):
        return []
    return json.load(open(p))


def profile_overflow_checks():
    try:
        t = open(os.path.join(os.environ.get('VERIF_REPO', '/repo'), 'Cargo.toml')).read()
        m = re.search(r'\[profile\.release\](.*?)(\n\[|\Z)', t, re.S)
        return bool(m and re.search(r'overflow-checks\s*=\s*true', m.group(1)))
    except Exception:
        return False


def main(argv):
    t0 = time.time()
    if not argv:
        print('usage: check <PROPERTY> [--tier quick|thorough] [--replay PATH]')
        return 2
    pid = argv[0]
    tier = os.environ.get('VERIF_TIER', 'quick')
    replay = None
    i = 1
    while i < len(argv):
        if argv[i] == '--tier':
            tier = argv[i + 1]
            i += 2
        elif argv[i] == '--replay':
            replay = argv[i + 1]
            i += 2
        else:
            i += 1
    if tier not in ('quick', 'thorough'):
        tier = 'quick'
    seed = int(os.environ.get('VERIF_SEED', '0') or 0)
    if replay:
        import replaylib
        return replaylib.replay(pid, replay)

    units = load_units()
    rel = [u for u in units.values() if pid in unit_tags(u)]
    if not rel:
        print('UNDECIDED property=%s: no unit carries an obligation tagged %s' % (pid, pid))
        return 2
    os.makedirs(OUT, exist_ok=True)
    built = {}
    undecided = []
    for u in rel:
        try:
            rs, meta = build.build_unit(u, OUT)
            built[u['name']] = (rs, meta)
        except ExtractError as e:
            undecided.append('extraction failed for unit %s: %s' % (u['name'], e))
        except Exception as e:  # lost anchor, malformed source, ...
            undecided.append('extraction crashed for unit %s: %r' % (u['name'], e))
    results = {}
    with concurrent.futures.ThreadPoolExecutor(max_workers=min(8, max(1, len(built)))) as ex:
        futs = {ex.submit(run_verus, rs): name for name, (rs, meta) in built.items()}
        for f in concurrent.futures.as_completed(futs):
            results[futs[f]] = f.result()

    all_fail = []
    stats = {}
    vacuous = []
    reseeded = {}
    all_known = {k['obligation'] for k in load_known() if k.get('status') == 'known'}
    for name, (rs, meta) in built.items():
        fails, und, vac, st = classify(name, meta, results[name])
        suspicious = [f for f in fails if f['obligation'] not in all_known]
        soft_und = [u for u in und if 'rlimit' in u or 'Resource limit' in u]
        if (suspicious or (soft_und and len(soft_und) == len(und))) and not os.environ.get('VERIF_NO_RESEED'):
            # A failed or given-up query is re-asked under two more Z3 seeds before it is believed: a proof found under any
            # seed is a proof, a real violation fails under every seed (guards against solver instability, never hides a defect).
            with concurrent.futures.ThreadPoolExecutor(max_workers=2) as ex2:
                more = list(ex2.map(lambda sd: run_verus(rs, extra=['--smt-option', 'smt.random_seed=%d' % sd]), (1, 2)))
            runs = [(fails, und, vac, st)] + [classify(name, meta, r) for r in more]
            decided = [r for r in runs if not r[1]]
            reseeded[name] = {'seeds': [0, 1, 2], 'failed_per_seed': [sorted(f['obligation'] for f in r[0]) for r in runs],
                              'undecided_per_seed': [len(r[1]) for r in runs]}
            if decided:
                common = set.intersection(*[set(f['obligation'] for f in r[0]) for r in decided])
                fails = [f for f in decided[0][0] if f['obligation'] in common]
                und, vac = [], decided[0][2]
        all_fail += fails
        undecided += und
        vacuous += ['%s::%s' % (name, v) for v in vac]
        stats[name] = st

    # obligations of this property
    my_obls = []
    fns_with_p = set()
    for name, (rs, meta) in built.items():
        for ob in meta['obligations']:
            if pid in ob['tags']:
                my_obls.append(ob)
                fns_with_p.add((name, ob['fn']))
    relevant = []
    for f in all_fail:
        if f['tags'] is not None:
            if pid in f['tags']:
                relevant.append(f)
        elif (f['unit'], f['fn']) in fns_with_p:
            relevant.append(f)
        elif f.get('lemma_file') and any(ob.get('file') == f['lemma_file'] and ob['unit'] == f['unit'] for ob in my_obls):
            relevant.append(f)

    known = [k for k in load_known() if k.get('property') == pid and k.get('status') == 'known']
    known_names = {k['obligation']: k for k in known}
    violations = [f for f in relevant if f['obligation'] not in known_names]
    known_hit = [f for f in relevant if f['obligation'] in known_names]

    if vacuous:
        undecided.append('vacuity guard: these `ensures false` twins verified (contract or shim is contradictory): %s' % vacuous)
    if not my_obls and not undecided:
        undecided.append('no obligations tagged %s were generated' % pid)

    # thorough tier extras
    extra = {}
    if tier == 'thorough' and not undecided:
        import thorough
        ex_und, ex_viol, extra = thorough.run(pid, rel, built, seed)
        undecided += ex_und
        violations += ex_viol

    failed_names = {f['obligation'] for f in relevant}
    discharged = [ob for ob in my_obls if ob['name'] not in failed_names and
                  not any(f['kind'] == 'body' and f['unit'] == ob['unit'] and f['fn'] == ob['fn'] for f in relevant)]
    expected = [ob for ob in my_obls if ob['name'] not in known_names]

    rc = 0
    out_lines = []
    # a per-function solver give-up (rlimit) next to definite failures of the same property does not hide those failures
    soft = [u for u in undecided if ('rlimit' in u or 'Resource limit' in u) and 'vacuity' not in u]
    if violations and len(soft) == len(undecided):
        for u in undecided:
            out_lines.append('NOTE property=%s: %s' % (pid, u))
        undecided = []
    for f in known_hit:
        out_lines.append('KNOWN-FINDING: property=%s %s — %s' % (pid, f['obligation'], known_names[f['obligation']].get('what', '')))
    if undecided:
        rc = 2
        for u in undecided:
            out_lines.append('UNDECIDED property=%s: %s' % (pid, u))
    elif violations:
        rc = 1
        os.makedirs(os.path.join(OUT, 'replay'), exist_ok=True)
        import replaylib
        for f in violations:
            safe = re.sub(r'[^A-Za-z0-9_.\-]+', '_', f['obligation'])[:120]
            rp = os.path.join(OUT, 'replay', '%s-%s.json' % (pid, safe))
            witness = replaylib.find_witness(pid, f, seed)
            json.dump({'property': pid, 'obligation': f['obligation'], 'unit': f['unit'], 'function': f['fn'], 'kind': f['kind'],
                       'verifier': 'verus', 'verifier_message': f['message'], 'source_location': f['src'],
                       'verifier_output': f['rendered'], 'witness': witness,
                       'note': None if witness else 'no-failing-input-found'}, open(rp, 'w'), indent=1)
            out_lines.append('VIOLATION property=%s replay=%s%s' % (pid, rp, '' if witness else ' no-failing-input-found'))

    # evidence
    trusted = []
    for name, (rs, meta) in built.items():
        for h in trusted_scan(rs):
            if h not in trusted:
                trusted.append(h)
    fn_list = []
    rules = {}
    for name, (rs, meta) in built.items():
        for it in meta['items']:
            if it['kind'] == 'fn':
                rewritten = len(it['rules'])
                fn_list.append({'unit': name, 'fn': it['name'], 'src': '%s:%d' % (it['src'], it['line']), 'sha256_16': it['sha256_16'],
                                'tokens': it['tokens'], 'rewrites': rewritten})
            for r in it['rules']:
                rules[r['rule']] = rules.get(r['rule'], 0) + 1
    ev = {
        'property_id': pid, 'tier': tier, 'seed': seed, 'level': 'proof',
        'coverage': {
            'obligations': len(expected),
            'discharged': len([ob for ob in discharged if ob['name'] not in known_names]),
            'checker_cmd': '; '.join(results[n]['cmd'] for n in sorted(results)),
            'trusted_base': trusted,
            'samples': [{'obligation': ob['name'], 'kind': ob['kind'], 'tags': ob['tags']} for ob in my_obls[:12]],
            'units': stats,
            'functions_under_contract': fn_list,
            'vacuity_twins_failed_as_required': sum(len(m.get('vacuity', [])) for (_, m) in built.values()) - len(vacuous),
            'rewrite_rules_fired': rules,
            'known_findings_hit': [f['obligation'] for f in known_hit],
            'failed_obligations': [f['obligation'] for f in relevant],
            'overflow_checks_true_in_release_profile': profile_overflow_checks(),
            'back_end': 'Verus %s (Z3)' % verus_version(),
            'thorough': extra,
        },
        'assumptions': assumptions_for(pid),
        'wall_s': round(time.time() - t0, 2),
        'reseeded_units': reseeded,
        'violations': len(violations) if rc == 1 else 0,
    }
    evdir = os.environ.get('VERIF_EVIDENCE_DIR') or os.path.join(VERIF, 'evidence')
    os.makedirs(evdir, exist_ok=True)
    json.dump(ev, open(os.path.join(evdir, pid + '.json'), 'w'), indent=1)
    for ln in out_lines:
        print(ln)
    if rc == 0:
        print('OK property=%s obligations=%d discharged=%d units=%s wall=%.1fs' % (
            pid, ev['coverage']['obligations'], ev['coverage']['discharged'], ','.join(sorted(built)), time.time() - t0))
    return rc


def assumptions_for(pid):
    p = os.path.join(VERIF, 'assumptions.json')
    base = []
    if os.path.exists(p):
        a = json.load(open(p))
        base = list(a.get('all', [])) + list(a.get(pid, []))
    return base
