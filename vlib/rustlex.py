"""Minimal Rust lexer + bracket matcher used by the extractor.

Tokens: (kind, text, start, end) with kind in
  ws, comment, doc, ident, lifetime, str, char, num, punct
Only what the extractor needs: it never parses expressions, it finds items by
(kind, name) and matches brackets while skipping strings/comments.
"""
import re

IDENT = re.compile(r'[A-Za-z_][A-Za-z0-9_]*')
NUM = re.compile(r'[0-9][0-9A-Za-z_]*(\.[0-9][0-9A-Za-z_]*)?')
PUNCTS = ['<<=', '>>=', '...', '..=', '::', '->', '=>', '==', '!=', '<=', '>=', '&&', '||',
          '+=', '-=', '*=', '/=', '%=', '^=', '&=', '|=', '<<', '>>', '..']


class Tok:
    __slots__ = ('kind', 'text', 'start', 'end')

    def __init__(self, kind, text, start, end):
        self.kind, self.text, self.start, self.end = kind, text, start, end

    def __repr__(self):
        return f'{self.kind}:{self.text!r}'


def lex(src):
    toks = []
    i, n = 0, len(src)
    while i < n:
        c = src[i]
        if c.isspace():
            j = i
            while j < n and src[j].isspace():
                j += 1
            toks.append(Tok('ws', src[i:j], i, j))
            i = j
        elif src.startswith('//', i):
            j = src.find('\n', i)
            if j < 0:
                j = n
            kind = 'doc' if (src.startswith('///', i) and not src.startswith('////', i)) or src.startswith('//!', i) else 'comment'
            toks.append(Tok(kind, src[i:j], i, j))
            i = j
        elif src.startswith('/*', i):
            depth, j = 1, i + 2
            while j < n and depth:
                if src.startswith('/*', j):
                    depth += 1
                    j += 2
                elif src.startswith('*/', j):
                    depth -= 1
                    j += 2
                else:
                    j += 1
            toks.append(Tok('comment', src[i:j], i, j))
            i = j
        elif c == '"' or (c in 'br' and re.match(r'(b?r#*"|b")', src[i:i + 8])):
            m = re.match(r'b?(r(#*))?"', src[i:])
            if m.group(1) is not None:  # raw string
                hashes = m.group(2)
                endmark = '"' + hashes
                j = src.find(endmark, i + m.end())
                j = n if j < 0 else j + len(endmark)
            else:
                j = i + m.end()
                while j < n and src[j] != '"':
                    j += 2 if src[j] == '\\' else 1
                j += 1
            toks.append(Tok('str', src[i:j], i, j))
            i = j
        elif c == "'":
            # char literal or lifetime
            m = re.match(r"'(\\.[^']*|[^'\\])'", src[i:])
            if m:
                toks.append(Tok('char', m.group(0), i, i + m.end()))
                i += m.end()
            else:
                m = IDENT.match(src, i + 1)
                j = m.end() if m else i + 1
                toks.append(Tok('lifetime', src[i:j], i, j))
                i = j
        elif c.isdigit():
            m = NUM.match(src, i)
            j = m.end()
            # do not swallow `..` of ranges: 0..n
            t = src[i:j]
            if '.' in t and src.startswith('..', i + t.index('.')):
                j = i + t.index('.')
            toks.append(Tok('num', src[i:j], i, j))
            i = j
        elif c.isalpha() or c == '_':
            m = IDENT.match(src, i)
            toks.append(Tok('ident', m.group(0), i, m.end()))
            i = m.end()
        else:
            for p in PUNCTS:
                if src.startswith(p, i):
                    toks.append(Tok('punct', p, i, i + len(p)))
                    i += len(p)
                    break
            else:
                toks.append(Tok('punct', c, i, i + 1))
                i += 1
    return toks


OPEN = {'(': ')', '[': ']', '{': '}'}
CLOSE = {v: k for k, v in OPEN.items()}


def sig(toks):
    """indices of significant tokens (no ws/comments/docs)"""
    return [k for k, t in enumerate(toks) if t.kind not in ('ws', 'comment', 'doc')]


def match_close(toks, k):
    """toks[k] is an opening bracket; return index of the matching close."""
    depth = 0
    for j in range(k, len(toks)):
        t = toks[j]
        if t.kind != 'punct':
            continue
        if t.text in OPEN:
            depth += 1
        elif t.text in CLOSE:
            depth -= 1
            if depth == 0:
                return j
    raise ValueError('unbalanced bracket at %d' % toks[k].start)


def match_angle(toks, k):
    """toks[k] is '<' opening generics; return index of matching '>' (handles '>>')."""
    depth = 0
    j = k
    while j < len(toks):
        t = toks[j]
        if t.kind == 'punct':
            if t.text == '<':
                depth += 1
            elif t.text == '>':
                depth -= 1
            elif t.text == '>>':
                depth -= 2
            elif t.text == '->':
                pass
            elif t.text in OPEN:
                j = match_close(toks, j)
            if depth <= 0:
                return j
        j += 1
    raise ValueError('unbalanced <')
